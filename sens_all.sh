#!/bin/bash
# sens_all.sh [pattern] : run every mutant of /verif/mutants (optionally only those matching the pattern) against the quick check of its property
cd "$(dirname "$(readlink -f "$0")")"
for p in mutants/${1:-C}*.patch; do
  id=$(basename $p | cut -d- -f1)
  ./sens run $id $p 2>&1 | grep "^SENS"
done
