#!/usr/bin/env python3
"""mkmeta.py <seed-dir-name> <first_written:true|false> <<'TXT'
breaks...
====
needs...
====
outcome...
TXT
writes /verif/seeded/<name>/meta.json using the results of the last verify_seed.sh run (/tmp/vseed-<name>.json)."""
import json, sys, glob, os
name, first = sys.argv[1], sys.argv[2] == 'true'
breaks, needs, outcome = [x.strip() for x in sys.stdin.read().split('\n====\n')]
d = f'/verif/seeded/{name}'
demo = [os.path.basename(f) for f in glob.glob(d + '/*_test.go')]
res = json.load(open(f'/tmp/vseed-{name}.json'))
json.dump({
    "property": name.split('-')[0],
    "round": int(name.split('-')[1]) if '-' in name else 1,
    "source": "independent sub-agent given only the property text, a one-paragraph description of the earlier seeded change to avoid, and a scratch worktree" if '-' in name else "independent sub-agent given only the property text and a scratch worktree",
    "breaks": breaks, "needs_to_manifest": needs,
    "demonstration": f"{demo[0] if demo else '?'} (placement and command in README.md); run with -run TestSeed",
    "confirmed_by_me": {"procedure": f"./verify_seed.sh {name} (fresh scratch worktree of /repo HEAD): demo on clean tree passes, demo with patch fails, full suite with patch (without demo) passes, then the property's quick check with VERIF_REPO=<worktree>", "results": res},
    "detected_by_quick_check_as_first_written": first, "outcome": outcome}, open(d + '/meta.json', 'w'), indent=1)
print("wrote", d + '/meta.json', res)
