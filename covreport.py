#!/usr/bin/env python3
"""covreport.py <dir> [--all] : merge the cov-*.json files written under VERIF_COVER and list, per contract source
file of /repo, the statements (compiler sequence points) no check ever executed. A measurement aid for finding
generator gaps; it is not part of any check."""
import json, glob, sys, os, collections
d = sys.argv[1]
hits = collections.defaultdict(lambda: collections.Counter())
seq = {}
for f in glob.glob(os.path.join(d, 'cov-*.json')):
    o = json.load(open(f))
    for c, m in o['hits'].items():
        for k, v in m.items():
            hits[c][int(k)] += v
    for c, pts in o['seq'].items():
        seq.setdefault(c, pts)
tot_all = cov_all = 0
for c in sorted(seq):
    bydoc = collections.defaultdict(list)
    for p in seq[c]:
        bydoc[p['d']].append(p)
    for doc in sorted(bydoc):
        if '/repo/' not in doc and '/tmp/' not in doc:
            continue
        if '/contracts/' not in doc and '/common/' not in doc:
            continue
        pts = bydoc[doc]
        lines = {}
        for p in pts:
            for ln in range(p['Start'], p['End'] + 1):
                lines.setdefault(ln, False)
                if hits[c][p['o']] > 0:
                    lines[ln] = True
        tot = len(lines); cov = sum(1 for v in lines.values() if v)
        tot_all += tot; cov_all += cov
        print(f"== {os.path.basename(c)}: {doc}: {cov}/{tot} lines with statements executed")
        try:
            src = open(doc).read().split('\n')
        except Exception:
            src = []
        unc = sorted(l for l, v in lines.items() if not v)
        # group into ranges
        i = 0
        while i < len(unc):
            j = i
            while j + 1 < len(unc) and unc[j + 1] <= unc[j] + 1:
                j += 1
            for ln in range(unc[i], unc[j] + 1):
                if ln in lines and ln - 1 < len(src):
                    print(f"   {ln:5d}: {src[ln-1].rstrip()[:140]}")
            print("   -----")
            i = j + 1
print(f"TOTAL {cov_all}/{tot_all}")
