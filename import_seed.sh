#!/bin/bash
# import_seed.sh <Cxx> <round> [demo-dst] : copy a sub-agent's deliverables from /tmp/seed<round>/<Cxx>/SEED to /verif/seeded/<Cxx>-<round>/,
# confirm them with verify_seed.sh and remove the sub-agent's worktree.
set -u
id=$1; r=$2; dst=${3:-}
src=/tmp/seed$r/$id/SEED; [ -d "$src" ] || src=$(ls -d /tmp/seed$r/$id/*SEED* | head -1)
out=/verif/seeded/$id-$r
mkdir -p $out
cp $src/patch.diff $src/README.md $out/ || exit 2
cp $src/*_test.go $out/ 2>/dev/null; for f in $src/*_test.go.txt; do [ -f "$f" ] && cp "$f" "$out/$(basename "${f%.txt}")"; done
ls $src
if [ -z "$dst" ]; then
  dst=$(grep -oE "(tests|deploy)/seed[A-Za-z0-9_]*_test\.go" $src/README.md | head -1)
  dst=${dst:-tests/seed_demo_test.go}
fi
echo "demo destination: $dst"
/verif/verify_seed.sh $id-$r $dst
git -C /repo worktree remove --force /tmp/seed$r/$id && echo "worktree removed"
