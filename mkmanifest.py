#!/usr/bin/env python3
"""Regenerates /verif/MANIFEST.json from checks_config.py and the table below
(so the manifest can never drift from what ./check actually runs)."""
import json
import os
import sys

VERIF = os.path.dirname(os.path.abspath(__file__))
sys.path.insert(0, VERIF)
from checks_config import CHECKS  # noqa: E402

TRUST = ("Trusted base: neo-go v0.107.0 VM, compiler, native contracts and transaction atomicity on FAULT; "
         "the harness' reference model for this property. Contracts are compiled from /repo at check time and run on an in-memory chain; "
         "sampled exploration never proves absence.")

META = {
    "C01": dict(tech="model-based stateful PBT (rapid state machine) with invariant + notification-replay oracle",
                text="Generated histories of transfer/transferX/mint/burn/lock/newEpoch/tick by owners, strangers, a contract account and the Alphabet (committees of 1 and 3) run against the real Balance contract; after every invocation supply = sum of raw balances = totalSupply(), no negative balance, supply moves only by successful mint/burn, refused calls leave storage untouched, Transfer/TransferX come in equal pairs whose replay on the pre-state gives the post-state. Exploration is the right level: the statement is an invariant over all histories with a cheap executable oracle.",
                ref="3/C01"),
    "C02": dict(tech="model-based stateful PBT + bounded-exhaustive single-call matrix; oracle: debited accounts are a subset of authorisers + ABI sweep + witness-scope enumeration",
                text="Same generator as C01 plus an enumerated matrix (amount class x signer subset x from x to) of single transfers; for every transaction every account whose balance fell must have witnessed it, be the calling contract, or the Alphabet must have signed; transfer=false implies empty storage diff and no event. Also: an ABI sweep over every method of the compiled executable, and an enumerated group in which the holder's key is on the transaction with a witness scope that does not cover the Balance contract (None as sender or second signer, CalledByEntry through a forwarding contract): refused, nothing moves.",
                ref="3/C02"),
    "C03": dict(tech="manifest-driven enumeration (method x signer class x committee size) with generated arguments; inert/succeeds oracle on a full storage+token snapshot diff",
                text="Every method of every manifest compiled from the working tree is invoked under each signer class on committees of 1, 3 and 7 keys; negative classes must leave all contract storage, token balances and notifications untouched, the exactly-required class must succeed, safe methods must never modify state, verify accepts only Alphabet multisignatures.",
                ref="3/C03"),
    "C04": dict(tech="model-based stateful PBT against a registry reference model, raw storage scan and NNS cross-check",
                text="Generated put/putNamed/putMeta/delete/setEACL histories over several owners, blobs and names; after every step the whole read API (get, owner, alias, eACL, count, list, containersOf), the NNS alias records, the raw storage prefixes and the per-transaction notifications are compared with a registry model (live set + tombstones).",
                ref="3/C04"),
    "C05": dict(tech="model-based stateful PBT with an exact money model at balance boundaries fee*N-1 / fee*N / fee*N+1",
                text="Generated fee settings, Alphabet sizes 1/4/7 and owner balances around the threshold; a put succeeds iff the owner can pay (fee[+alias fee])*N, then exactly that is debited and fee per node credited to each Alphabet account with container-fee TransferX details; otherwise balances, registry and NNS are unchanged.",
                ref="3/C05"),
    "C06": dict(tech="model-based stateful PBT with probe subscriber contracts; epoch/snapshot/fan-out reference model",
                text="Generated candidate changes, subscriptions (incl. duplicates, rejecting probes) and ticks with smaller/equal/+1/jump epochs, several transactions per block; success iff Alphabet-witnessed, growing and no subscriber rejects; publication in both formats, tick height, unchanged candidates, one call per subscriber in subscription order.",
                ref="3/C06"),
    "C07": dict(tech="model-based stateful PBT + exhaustive (operation x state value x list membership) matrix against a two-list state machine model + witness-scope enumeration",
                text="Generated add/update/remove sequences over keys present in the legacy list, the structured list, both or neither, with all state values and signer subsets; netmapCandidates/listCandidates and notifications must match the model after every step. Also an enumerated group in which the node's key is on the transaction with a scope that does not cover Netmap (None, CustomContracts elsewhere) next to the Alphabet: refused, lists unchanged.",
                ref="3/C07"),
    "C08": dict(tech="bounded-exhaustive enumeration of (old count, new count, elapsed epochs) + random longer histories against a retained-epochs history model over three read paths",
                text="For every resize in the bounded scope and random double resizes, snapshot(d), snapshotByEpoch(e) and listNodes(e) must return exactly the published map for retained epochs and nothing otherwise, and the next tick must succeed.",
                ref="3/C08"),
    "C09": dict(tech="model-based stateful PBT against a lock reference model (full balance model)",
                text="Generated lock/burn/transferX/mint/tick histories with until in the past/present/future and simultaneous locks; after every step all raw balances, lock accounts and supply equal the model: release exactly at the first tick with epoch >= until, of exactly the remaining balance, once, for all due locks.",
                ref="3/C09"),
    "C10": dict(tech="model-based stateful PBT with harness-owned clock against an NEP-11 accounting model",
                text="Generated register/registerTLD/transfer/renew histories with block time moved to exp-1/exp/exp+1; totalSupply, balanceOf, tokensOf, isAvailable, ownerOf/properties and Transfer notifications are compared with the model after every step.",
                ref="3/C10"),
    "C11": dict(tech="model-based stateful PBT: method x role matrix evaluated at every visited ownership state, authorisation model + storage diff",
                text="On evolving ownership histories every mutating NNS method is attempted under each role (owner, admin, former owner/admin, parent owner/admin, stranger, committee); forbidden attempts must fail and leave NNS storage unchanged, permitted ones must succeed.",
                ref="3/C11"),
    "C12": dict(tech="model-based stateful PBT against a record/resolution reference model over three read paths; round-trip of contract-address records through three readers",
                text="Generated record operations over names, sub-names and types incl. CNAME graphs with cycles and interleaved registrations; getRecords/getAllRecords/resolve, limits, SOA serial and conflict rules are compared with the model.",
                ref="3/C12"),
    "C13": dict(tech="generated-input algebraic/round-trip oracles for the pure helpers (partly exhaustive) + generated schedules of deploy.Deploy on an in-process chain with a post-state oracle",
                text="Helpers: fund division, nonce/validity window, shared-data codec. End to end: n members run deploy.Deploy concurrently against an in-process implementation of deploy.Blockchain with generated start order, cancellations/restarts and absent minorities; termination within a block bound, designations, NNS state, one contract per name, idempotent re-run.",
                ref="3/C13"),
    "C14": dict(tech="model-based stateful PBT of roster histories + generated signature matrices against a reference verifier (REP distinct members)",
                text="Roster histories with batches crossing counter boundaries 127/255/256 and re-commits; signature matrices from member/non-member/duplicate/wrong-message/malleated signatures; contract true implies reference true, honest matrices are accepted, submitObjectPut follows.",
                ref="3/C14"),
    "C15": dict(tech="exhaustive differential re-translation of all 11 contracts (NEF, manifest, binding text) + generated differential execution embedded-vs-fresh + generated binding calls; chain-backed decoding of every generated reader method",
                text="All shipped artefacts are regenerated with the pinned compiler and compared byte for byte; embedded and fresh executables are run on twin chains with generated call histories; every binding method is called against a recording invoker checked against the manifest. A chain-backed invoker additionally runs every reader method of every generated binding against the contracts of the working tree: whatever the contract answers (HALT, non-null) the reader must decode, scalar results must equal the stack item.",
                ref="3/C15", level="translation_validation"),
    "C16": dict(tech="generated version numbers x signer sets x synthetic legacy storages (stub-upgrade) and mutated recorded dumps; oracle: read API before = read API after",
                text="update is attempted with every signer class and version around both bounds; legacy layouts generated from a logical model are installed under a stub, upgraded to the working-tree contract and read back through the new read API.",
                ref="3/C16"),
    "C17": dict(tech="bounded-exhaustive vote sequences + model-based stateful PBT against a ballot reference model",
                text="Non-notary NeoFS contract with n = 1..7 keys: generated and exhaustively enumerated vote sequences by members and strangers over two ids with block gaps around the 20-block window; the effect must happen exactly once, in the invocation reaching floor(2n/3)+1 distinct voters. Further enumerated groups: proposed Alphabet lists of other sizes, interplay of concurrent ballots incl. a re-entering payee, witness scopes of the voters, and cheques the contract cannot pay when the completing vote arrives (must fail as a whole and complete later).",
                ref="3/C17"),
    "C18": dict(tech="bounded-exhaustive strings over a reduced alphabet + structured mutations + random strings against independent reference grammars (differential acceptance)",
                text="isAvailable/register/registerTLD/addRecord/setRecord must accept exactly what independent reference predicates for names, A, AAAA, CNAME and TXT accept; rejected inputs must leave storage unchanged. An enumerated group registers a chain of three 63-byte parents and probes every total length 197..259 (accepted iff at most 255 bytes).",
                ref="3/C18"),
    "C19": dict(tech="model-based stateful PBT against an exact GAS ledger; enumerated emit arithmetic over balance boundaries x Inner Ring sizes",
                text="Main chain deposits/withdrawals/cheques/candidate fees and FS chain emit are replayed against an exact GAS ledger of all parties (fees isolated on a separate payer); foreign-token probes must be refused.",
                ref="3/C19"),
    "C20": dict(tech="model-based stateful PBT against exact-store models over prefix-related epochs and ids",
                text="Generated multisets of puts over epochs whose encodings are prefixes of one another, interleaved with ticks and removals, for Reputation, Audit, container size estimations, NeoFSID and the configuration maps; every listing/getter must return exactly what was put and not yet cleaned. An enumerated group puts 126..260 values under one Reputation id (per-id counter beyond one byte).",
                ref="3/C20"),
}


def main():
    props = [json.loads(l) for l in open(os.path.join(VERIF, "properties.jsonl"))]
    hooks_commits = []
    hc = os.path.join(VERIF, "HOOK_COMMITS.txt")
    if os.path.exists(hc):
        hooks_commits = [l.split()[0] for l in open(hc) if l.strip() and not l.startswith("#")]
    m = {
        "version": 1,
        "setup_cmd": "cd /verif && ./check --build",
        "hooks": {
            "guard": "verif",
            "enable": "Go build tag `verif`: ./check builds the harness test binary with `go test -c -tags verif`; /repo is compiled in through the go.mod replace of /verif/harness",
            "baseline_off_cmd": "cd /repo && GOFLAGS=-mod=mod go test -vet=off -count=1 -timeout 25m ./...",
            "source_commits": hooks_commits,
            "add_only": True,
        },
        "engines": [{
            "name": "props", "path": "/verif/harness", "serves_properties": sorted(CHECKS),
            "kind_free_text": "One Go test binary (pgregory.net/rapid v1.3.0 state machines, generated inputs, bounded enumerations) driving the real contracts compiled from /repo on an in-memory neo-go chain; reference models are oracles only. Driver ./check shards by seed over processes and merges evidence.",
        }],
        "checks": [],
        "not_applicable": [],
        "notes": "Driver: ./check <id> <quick|thorough>; replay: ./check --replay <file>; design and per-property oracles: DESIGN.md; known findings and fixes: KNOWN_FINDINGS.txt.",
    }
    for p in props:
        pid = p["id"]
        if pid in CHECKS:
            md = META[pid]
            c = {
                "property_id": pid,
                "quick_cmd": "./check %s quick" % pid,
                "thorough_cmd": "./check %s thorough" % pid,
                "evidence_file": "/verif/evidence/%s.json" % pid,
                "replay_cmd_template": "./check --replay {path}",
                "engine": "props",
                "level_claimed": {"category": md.get("level", "exploration"), "text": md["text"], "design_ref": "DESIGN.md section " + md["ref"]},
                "level_note": CHECKS[pid].get("note", "") + (" " if CHECKS[pid].get("note") else "") + TRUST,
                "technique": md["tech"],
            }
            m["checks"].append(c)
        else:
            m["not_applicable"].append({"property_id": pid, "reason": "check not built yet in this round (planned, see DESIGN.md section 3); not claimed until its check runs clean"})
    json.dump(m, open(os.path.join(VERIF, "MANIFEST.json"), "w"), indent=1)
    print("MANIFEST.json: %d checks, %d not_applicable" % (len(m["checks"]), len(m["not_applicable"])))


if __name__ == "__main__":
    main()
