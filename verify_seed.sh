#!/bin/bash
# verify_seed.sh <Cxx> [demo-relative-path] : confirm a seeded change (from /verif/seeded/<id>/) in a scratch worktree:
#  clean+demo passes, patch+demo fails, patch without demo passes the whole suite; then run the property's quick check on it.
set -u
id=$1; dst=${2:-tests/seed_demo_test.go}; prop=${id%%-*}
sd=/verif/seeded/$id
export GOFLAGS=-mod=mod GOPROXY=off GOSUMDB=off GOTOOLCHAIN=local
wt=$(mktemp -d /tmp/verif-vseed-XXXXXX)
cleanup() { git -C /repo worktree remove --force "$wt" >/dev/null 2>&1; rm -rf "$wt"; git -C /repo worktree prune; }
trap cleanup EXIT
git -C /repo worktree add -q --detach "$wt" HEAD || exit 2
demo=$(ls $sd/*_test.go | head -1)
cp "$demo" "$wt/$dst"
pkg=./$(dirname $dst)/
(cd $wt && go test -vet=off -count=1 -run TestSeed $pkg >/tmp/vseed-$id-1.log 2>&1); r1=$?
git -C $wt apply $sd/patch.diff || { echo "patch does not apply"; exit 2; }
(cd $wt && go test -vet=off -count=1 -run TestSeed $pkg >/tmp/vseed-$id-2.log 2>&1); r2=$?
rm -f "$wt/$dst"
(cd $wt && go test -vet=off -count=1 ./... >/tmp/vseed-$id-3.log 2>&1); r3=$?
echo "$id: clean+demo rc=$r1 (want 0); patch+demo rc=$r2 (want !=0); patch suite rc=$r3 (want 0)"
out=$(cd /verif && VERIF_REPO="$wt" VERIF_EVIDENCE_DIR="$wt/.evidence" VERIF_REPLAY_DIR="$wt/.replays" ./check "$prop" ${TIER:-quick} 2>&1); rc=$?
echo "$out" | grep -E "^(VIOLATION|  Test|INCONCLUSIVE)" | head -4
echo "$id check rc=$rc"
echo "{\"demo_on_clean_tree\": $r1, \"demo_with_patch\": $r2, \"suite_with_patch\": $r3, \"check_${TIER:-quick}_exit\": $rc}" > /tmp/vseed-$id.json
