#!/bin/bash
# Runs every configured check at several seeds on the unchanged tree and reports anything that is not a clean exit 0.
# usage: [VERIF_SOAK_IDS="C15 C17"] ./soak.sh <tier> <seed>... ; evidence goes to a scratch dir so that committed evidence is untouched.
tier=${1:-quick}; shift
seeds=${@:-1 2 3}
out=$(mktemp -d /tmp/verif-soak-XXXXXX)
bad=0
for id in ${VERIF_SOAK_IDS:-$(./check --list | awk '{print $1}')}; do
  for s in $seeds; do
    log=$out/$id-$s.log
    VERIF_SEED=$s VERIF_EVIDENCE_DIR=$out/ev VERIF_REPLAY_DIR=$out/replays ./check $id $tier > $log 2>&1; rc=$?
    echo "$id seed=$s rc=$rc $(tail -1 $log)"
    if [ $rc != 0 ]; then bad=$((bad+1)); grep -A1 -E "^(VIOLATION|INCONCLUSIVE)" $log | head -6; fi
  done
done
echo "SOAK DONE bad=$bad logs=$out"
