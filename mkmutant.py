#!/usr/bin/env python3
"""mkmutant.py <Cxx> <name> <file> <<< "OLD\n====\nNEW"  : writes mutants/<Cxx>-<name>.patch (exact-text replacement, first occurrence)."""
import os, subprocess, sys, tempfile
pid, name, file = sys.argv[1:4]
old, new = sys.stdin.read().split("\n====\n")
new = new.rstrip("\n") if not old.endswith("\n") else new
wt = tempfile.mkdtemp(prefix="/tmp/verif-mk-")
subprocess.run(["git", "-C", "/repo", "worktree", "add", "-q", "--detach", wt, "HEAD"], check=True)
try:
    p = os.path.join(wt, file)
    s = open(p).read()
    if old not in s:
        sys.exit("pattern not found in " + file)
    open(p, "w").write(s.replace(old, new, 1))
    d = subprocess.run(["git", "-C", wt, "diff"], capture_output=True, text=True).stdout
    os.makedirs("/verif/mutants", exist_ok=True)
    open("/verif/mutants/%s-%s.patch" % (pid, name), "w").write(d)
    print("wrote mutants/%s-%s.patch" % (pid, name))
finally:
    subprocess.run(["git", "-C", "/repo", "worktree", "remove", "--force", wt])
