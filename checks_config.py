"""Per-property run configuration of ./check.

groups: each group is one `go test -run` selection executed in `shards`
processes (rapid is single-core; shards differ only in the PRNG seed derived
from VERIF_SEED). `checks` = rapid cases per test function per shard.
"""


def G(name, run, checks, shards=1, **kw):
    d = dict(name=name, run=run, checks=checks, shards=shards)
    d.update(kw)
    return d


def E(name, run, shards=1, **kw):
    """enumeration / non-rapid group"""
    d = dict(name=name, run=run, checks=0, shards=shards, rapid=False)
    d.update(kw)
    return d


CHECKS = {
    "C01": dict(
        title="Balance: supply = sum of balances, no negative balance",
        quick=dict(groups=[G("stateful", "^TestC01Stateful$", 120, 8)]),
        thorough=dict(groups=[G("stateful", "^TestC01Stateful$", 1500, 16)]),
    ),
}
