"""Per-property run configuration of ./check.

groups: each group is one `go test -run` selection executed in `shards`
processes (rapid is single-core; shards differ only in the PRNG seed derived
from VERIF_SEED). `checks` = rapid cases per test function per shard.
"""


def G(name, run, checks, shards=1, **kw):
    d = dict(name=name, run=run, checks=checks, shards=shards)
    d.update(kw)
    return d


def E(name, run, shards=1, **kw):
    """enumeration / non-rapid group"""
    d = dict(name=name, run=run, checks=0, shards=shards, rapid=False)
    d.update(kw)
    return d


CHECKS = {
    "C01": dict(
        title="Balance: supply = sum of balances, no negative balance",
        quick=dict(groups=[G("stateful", "^TestC01Stateful$", 500, 8), E("abi-sweep", "^TestC01ABISweep$", 6)]),
        thorough=dict(groups=[G("stateful", "^TestC01Stateful$", 6000, 16), E("abi-sweep", "^TestC01ABISweep$", 12)]),
    ),
    "C02": dict(
        title="Balance: debits need the holder's or the Alphabet's authorisation",
        quick=dict(groups=[G("stateful", "^TestC02Stateful$", 300, 7), E("matrix", "^TestC02Matrix$"), E("abi-sweep", "^TestC02ABISweep$", 6), E("scopes", "^TestC02Scopes$")]),
        thorough=dict(groups=[G("stateful", "^TestC02Stateful$", 5000, 15), E("matrix", "^TestC02Matrix$"), E("abi-sweep", "^TestC02ABISweep$", 12), E("scopes", "^TestC02Scopes$")]),
    ),
    "C09": dict(
        title="Balance locks return exactly once at expiry unless burnt",
        quick=dict(groups=[G("stateful", "^TestC09Stateful$", 400, 8)]),
        thorough=dict(groups=[G("stateful", "^TestC09Stateful$", 6000, 16)]),
    ),
    "C08": dict(
        title="Netmap history: last N maps retrievable exactly across count changes",
        quick=dict(groups=[E("exhaustive", "^TestC08Exhaustive$", 12, env=dict(VERIF_KEEP_GOING=1)), G("random", "^TestC08Random$", 60, 4), E("long-run", "^TestC08LongRun$", 1)]),
        thorough=dict(groups=[E("exhaustive", "^TestC08Exhaustive$", 12, env=dict(VERIF_KEEP_GOING=1)), G("random", "^TestC08Random$", 1500, 16), E("long-run", "^TestC08LongRun$", 2)]),
    ),
    "C07": dict(
        title="Netmap candidates follow the add/update/remove state machine in both lists",
        quick=dict(groups=[G("stateful", "^TestC07Stateful$", 300, 7), E("matrix", "^TestC07Matrix$"), E("scopes", "^TestC07Scopes$")]),
        thorough=dict(groups=[G("stateful", "^TestC07Stateful$", 5000, 15), E("matrix", "^TestC07Matrix$"), E("scopes", "^TestC07Scopes$")]),
    ),
    "C06": dict(
        title="Netmap tick: growing epoch, atomic publication, subscriber fan-out",
        quick=dict(groups=[G("stateful", "^TestC06Stateful$", 300, 8)]),
        thorough=dict(groups=[G("stateful", "^TestC06Stateful$", 5000, 16)]),
    ),
    "C04": dict(
        title="Container registry matches the live set; deletion is complete and final",
        quick=dict(groups=[G("stateful", "^TestC04Stateful$", 400, 8)]),
        thorough=dict(groups=[G("stateful", "^TestC04Stateful$", 3000, 16)]),
    ),
    "C05": dict(
        title="Container creation charges exactly the configured fee, atomically",
        quick=dict(groups=[G("stateful", "^TestC05Stateful$", 300, 8)]),
        thorough=dict(groups=[G("stateful", "^TestC05Stateful$", 4000, 16)]),
    ),
    "C14": dict(
        title="Placement roster is what was committed; signatures need REP distinct members",
        quick=dict(groups=[G("roster", "^TestC14Roster$", 40, 6), E("roster-boundaries", "^TestC14RosterBoundaries$"), G("signatures", "^TestC14Signatures$", 150, 8)]),
        thorough=dict(groups=[G("roster", "^TestC14Roster$", 400, 8), E("roster-boundaries", "^TestC14RosterBoundaries$"), G("signatures", "^TestC14Signatures$", 3000, 8)]),
    ),
    "C20": dict(
        title="Epoch-keyed, per-owner and configuration stores return exactly what was put",
        quick=dict(groups=[G("reputation", "^TestC20Reputation$", 100, 3), E("reputation-many", "^TestC20ReputationMany$", 3), G("audit", "^TestC20Audit$", 60, 3), G("neofsid", "^TestC20NeoFSID$", 150, 2),
                           G("config", "^TestC20Config$", 150, 3), G("estimations", "^TestC20Estimations$", 80, 5)]),
        thorough=dict(groups=[G("reputation", "^TestC20Reputation$", 1500, 3), E("reputation-many", "^TestC20ReputationMany$", 3), G("audit", "^TestC20Audit$", 1000, 3), G("neofsid", "^TestC20NeoFSID$", 2000, 2),
                              G("config", "^TestC20Config$", 2000, 3), G("estimations", "^TestC20Estimations$", 1500, 5)]),
    ),
    "C18": dict(
        title="NNS accepts exactly well-formed names and record data",
        quick=dict(groups=[E("exhaustive", "^TestC18Exhaustive$", 4, env=dict(VERIF_C18_MAXLEN=4)), E("ipv4-product", "^TestC18IPv4Product$", 4),
                           E("ipv6-exhaustive", "^TestC18IPv6Exhaustive$", 4, env=dict(VERIF_C18_V6LEN=6)),
                           G("structured", "^TestC18Structured$", 250, 4), E("deep-names", "^TestC18DeepNames$")]),
        thorough=dict(groups=[E("exhaustive", "^TestC18Exhaustive$", 16, env=dict(VERIF_C18_MAXLEN=6)), E("ipv4-product", "^TestC18IPv4Product$", 16),
                              E("ipv6-exhaustive", "^TestC18IPv6Exhaustive$", 16, env=dict(VERIF_C18_V6LEN=8)),
                              G("structured", "^TestC18Structured$", 5000, 16), E("deep-names", "^TestC18DeepNames$")]),
    ),
    "C10": dict(
        title="NNS ownership lifecycle and NEP-11 accounting stay consistent over time",
        quick=dict(groups=[G("stateful", "^TestC10Stateful$", 250, 8)]),
        thorough=dict(groups=[G("stateful", "^TestC10Stateful$", 4000, 16)]),
    ),
    "C11": dict(
        title="NNS: only owner/admin/committee may change a name; sub-names need the parent",
        quick=dict(groups=[G("stateful", "^TestC11Stateful$", 120, 8)]),
        thorough=dict(groups=[G("stateful", "^TestC11Stateful$", 2500, 16)]),
    ),
    "C12": dict(
        title="NNS records and resolution reflect exactly the record operations performed",
        quick=dict(groups=[G("stateful", "^TestC12Stateful$", 120, 8), G("roundtrip", "^TestC12RoundTrip$", 100, 2)]),
        thorough=dict(groups=[G("stateful", "^TestC12Stateful$", 2500, 14), G("roundtrip", "^TestC12RoundTrip$", 2000, 2)]),
    ),
    "C17": dict(
        title="Vote-collected actions fire exactly at 2/3+1 distinct Alphabet votes",
        quick=dict(groups=[G("stateful", "^TestC17Stateful$", 150, 8), E("exhaustive", "^TestC17Exhaustive$", 8, env=dict(VERIF_C17_MAXLEN=4)), E("alphabet-resize", "^TestC17AlphabetResize$", 4), E("interplay", "^TestC17Interplay$", 4), E("witness-scopes", "^TestC17WitnessScopes$", 2), E("unfunded-cheque", "^TestC17UnfundedCheque$", 4)]),
        thorough=dict(groups=[G("stateful", "^TestC17Stateful$", 3000, 16), E("exhaustive", "^TestC17Exhaustive$", 16, env=dict(VERIF_C17_MAXLEN=5)), E("alphabet-resize", "^TestC17AlphabetResize$", 4), E("interplay", "^TestC17Interplay$", 4), E("witness-scopes", "^TestC17WitnessScopes$", 2), E("unfunded-cheque", "^TestC17UnfundedCheque$", 4)]),
    ),
    "C19": dict(
        title="GAS handled by the governance contracts is accounted exactly",
        quick=dict(groups=[G("main", "^TestC19Main$", 150, 6), E("emit", "^TestC19Emit$", 6), G("emit-random", "^TestC19EmitRandom$", 60, 4)]),
        thorough=dict(groups=[G("main", "^TestC19Main$", 3000, 8), E("emit", "^TestC19Emit$", 4), G("emit-random", "^TestC19EmitRandom$", 1500, 4)]),
    ),
    "C15": dict(
        title="Shipped executables, manifests and RPC bindings correspond to the sources",
        level="translation_validation",
        quick=dict(groups=[E("artifacts", "^TestC15Artifacts$"), E("bindings", "^TestC15Bindings$"), E("decoding", "^TestC15Decoding$"), E("order", "^TestC15DeployOrder$"),
                           G("embedded-behaviour", "^(TestC01Stateful|TestC04Stateful|TestC06Stateful|TestC10Stateful|TestC12Stateful|TestC14Signatures|TestC19Main)$", 40, 4, env=dict(VERIF_EMBEDDED=1), tests=7)]),
        thorough=dict(groups=[E("artifacts", "^TestC15Artifacts$"), E("bindings", "^TestC15Bindings$"), E("decoding", "^TestC15Decoding$"), E("order", "^TestC15DeployOrder$"),
                              G("embedded-behaviour", "^(TestC01Stateful|TestC02Stateful|TestC04Stateful|TestC05Stateful|TestC06Stateful|TestC07Stateful|TestC09Stateful|TestC10Stateful|TestC11Stateful|TestC12Stateful|TestC14Roster|TestC14Signatures|TestC17Stateful|TestC19Main|TestC19EmitRandom|TestC20Reputation|TestC20Audit|TestC20NeoFSID|TestC20Config|TestC20Estimations)$", 300, 12, env=dict(VERIF_EMBEDDED=1), tests=20)]),
    ),
    "C16": dict(
        title="Contract upgrade is committee-gated, version-monotonic, data-preserving",
        quick=dict(groups=[E("gate", "^TestC16Gate$", 4), E("window", "^TestC16Window$", 4), E("dumps", "^TestC16Dumps$"), G("data", "^TestC16Data$", 150, 8)]),
        thorough=dict(groups=[E("gate", "^TestC16Gate$", 4), E("window", "^TestC16Window$", 4), E("dumps", "^TestC16Dumps$"), G("data", "^TestC16Data$", 3000, 16)]),
    ),
    "C03": dict(
        title="Every mutating contract method is inert without its required witnesses",
        quick=dict(groups=[E("matrix", "^TestC03Matrix$", 12), E("rotation", "^TestC03Rotation$", 2), E("re-election", "^TestC03Matrix$", 6, env=dict(VERIF_C03_REELECT="1", VERIF_C03_N="1,3")), E("arg-sweep", "^TestC03ArgSweep$", 12, env=dict(VERIF_C03_SWEEP_N="3")), G("args", "^TestC03Args$", 40, 4)]),
        thorough=dict(groups=[E("matrix", "^TestC03Matrix$", 16), E("rotation", "^TestC03Rotation$", 2), E("re-election", "^TestC03Matrix$", 8, env=dict(VERIF_C03_REELECT="1", VERIF_C03_N="1,3,4")), E("arg-sweep", "^TestC03ArgSweep$", 16, env=dict(VERIF_C03_SWEEP_N="1,3,7")), G("args", "^TestC03Args$", 1500, 16)]),
    ),
    "C13": dict(
        title="Committee-run deployment converges, deploys exactly once, is idempotent",
        quick=dict(groups=[E("funds-exhaustive", "^TestC13FundsExhaustive$"), E("window-enumerated", "^TestC13WindowEnumerated$"), G("helpers-random", "^TestC13HelpersRandom$", 3000, 2),
                           E("regressions", "^TestC13Regressions$", 5, timeout="20m"), E("crash-points", "^TestC13CrashPoints$", 10, timeout="20m"),
                           G("deploy-n1", "^TestC13Deploy$", 2, 1, env=dict(VERIF_C13_N="1"), shrinktime="5s", timeout="20m"),
                           G("deploy-n2", "^TestC13Deploy$", 2, 2, env=dict(VERIF_C13_N="2"), shrinktime="5s", timeout="20m"),
                           G("deploy-n3", "^TestC13Deploy$", 1, 3, env=dict(VERIF_C13_N="3"), shrinktime="5s", timeout="20m"),
                           G("deploy-n4", "^TestC13Deploy$", 1, 4, env=dict(VERIF_C13_N="4"), shrinktime="5s", timeout="20m"),
                           G("deploy-churn", "^TestC13Deploy$", 1, 2, env=dict(VERIF_C13_N="4,5", VERIF_C13_SHAPE="churn"), shrinktime="5s", timeout="20m"),
                           G("deploy-expiry-churn", "^TestC13Deploy$", 1, 3, env=dict(VERIF_C13_N="4,5,6", VERIF_C13_SHAPE="expiry-churn"), shrinktime="5s", timeout="20m"),
                           G("deploy-multi-cancel", "^TestC13Deploy$", 1, 3, env=dict(VERIF_C13_N="2,3,4", VERIF_C13_SHAPE="multi-cancel"), shrinktime="5s", timeout="20m"),
                           G("deploy-late", "^TestC13Deploy$", 1, 2, env=dict(VERIF_C13_N="2,3,4", VERIF_C13_SHAPE="late"), shrinktime="5s", timeout="20m"),
                           E("leader-outage", "^TestC13LeaderOutage$", 6, timeout="20m")]),
        thorough=dict(groups=[E("funds-exhaustive", "^TestC13FundsExhaustive$"), E("window-enumerated", "^TestC13WindowEnumerated$"), G("helpers-random", "^TestC13HelpersRandom$", 100000, 4),
                              E("regressions", "^TestC13Regressions$", 5, timeout="20m"), E("crash-points", "^TestC13CrashPoints$", 16, env=dict(VERIF_C13_CRASH_MAX1=60, VERIF_C13_CRASH_MAX2=160), timeout="60m"),
                              G("deploy-all-restart", "^TestC13Deploy$", 6, 4, env=dict(VERIF_C13_N="2,3,4", VERIF_C13_SHAPE="all-restart"), shrinktime="60s", timeout="120m"),
                              G("deploy-small", "^TestC13Deploy$", 20, 6, env=dict(VERIF_C13_N="1,2,3,4"), shrinktime="60s", timeout="120m"),
                              G("deploy-large", "^TestC13Deploy$", 8, 6, env=dict(VERIF_C13_N="5,6,7"), shrinktime="60s", timeout="120m"),
                              G("deploy-churn", "^TestC13Deploy$", 6, 4, env=dict(VERIF_C13_N="4,5,6,7", VERIF_C13_SHAPE="churn"), shrinktime="60s", timeout="120m"),
                              G("deploy-expiry-churn", "^TestC13Deploy$", 5, 6, env=dict(VERIF_C13_N="4,5,6,7", VERIF_C13_SHAPE="expiry-churn"), shrinktime="60s", timeout="120m"),
                              G("deploy-multi-cancel", "^TestC13Deploy$", 20, 10, env=dict(VERIF_C13_N="2,3,4,5,7", VERIF_C13_SHAPE="multi-cancel"), shrinktime="60s", timeout="120m"),
                              G("deploy-late", "^TestC13Deploy$", 8, 6, env=dict(VERIF_C13_N="2,3,4,5,7", VERIF_C13_SHAPE="late"), shrinktime="60s", timeout="120m"),
                              E("leader-outage", "^TestC13LeaderOutage$", 16, env=dict(VERIF_C13_LO_N="2,3,4,5", VERIF_C13_LO_OUT="30,100,125,140,200", VERIF_C13_LO_DELAY="0,1,2,3"), timeout="120m")]),
    ),
}
