#!/bin/bash
# c13_explore.sh <seed>... : thorough C13 at several seeds (scratch evidence), for background exploration
cd "$(dirname "$(readlink -f "$0")")"
out=$(mktemp -d /tmp/verif-c13x-XXXXXX)
for s in "$@"; do
  VERIF_SEED=$s VERIF_EVIDENCE_DIR=$out/ev VERIF_REPLAY_DIR=/verif/replays ./check C13 thorough > $out/$s.log 2>&1; rc=$?
  echo "C13 thorough seed=$s rc=$rc $(tail -1 $out/$s.log)"
  grep -A1 "^VIOLATION" $out/$s.log | head -8
done
