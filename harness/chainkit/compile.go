package chainkit

import (
	"encoding/json"
	"fmt"
	"os"
	"path/filepath"
	"sync"

	"github.com/nspcc-dev/neo-go/cli/smartcontract"
	"github.com/nspcc-dev/neo-go/pkg/compiler"
	"github.com/nspcc-dev/neo-go/pkg/config"
	"github.com/nspcc-dev/neo-go/pkg/core/native/nativenames"
	"github.com/nspcc-dev/neo-go/pkg/core/state"
	"github.com/nspcc-dev/neo-go/pkg/neotest"
	"github.com/nspcc-dev/neo-go/pkg/smartcontract/manifest"
	"github.com/nspcc-dev/neo-go/pkg/smartcontract/nef"
	"github.com/nspcc-dev/neo-go/pkg/util"
	"github.com/nspcc-dev/neofs-contract/contracts"
)

func init() {
	// The contract compiler runs `go list` inside the repository. With
	// GOFLAGS=-mod=mod that could rewrite /repo/go.sum; with the default
	// (readonly) it cannot. Network stays off.
	os.Unsetenv("GOFLAGS")
	os.Setenv("GOPROXY", "off")
	os.Setenv("GOSUMDB", "off")
	os.Setenv("GOTOOLCHAIN", "local")
	config.Version = "0.107.0"
}

// RepoDir is the working tree under test.
func RepoDir() string {
	if d := os.Getenv("VERIF_REPO"); d != "" {
		return d
	}
	return "/repo"
}

// HarnessDir is the root of the harness module (for probe contracts).
func HarnessDir() string {
	if d := os.Getenv("VERIF_HARNESS"); d != "" {
		return d
	}
	return "/verif/harness"
}

// Compiled is a compiled contract, independent of the deployer.
type Compiled struct {
	NEF      *nef.File
	Manifest *manifest.Manifest
	NEFBytes []byte
	ManBytes []byte
	Debug    *compiler.DebugInfo
	dir      string
}

var (
	compileMu    sync.Mutex
	compileCache = map[string]*Compiled{}
)

// CompileDir compiles the contract in dir using dir/config.yml; nameOverride
// (if not empty) replaces the manifest name. Results are cached per process.
func CompileDir(dir, nameOverride string) *Compiled {
	compileMu.Lock()
	defer compileMu.Unlock()
	key := dir + "|" + nameOverride
	if c, ok := compileCache[key]; ok {
		return c
	}
	conf, err := smartcontract.ParseContractConfig(filepath.Join(dir, "config.yml"))
	if err != nil {
		panic(HarnessError{Msg: fmt.Sprintf("chainkit: config of %s: %v", dir, err)})
	}
	o := &compiler.Options{}
	o.Name = conf.Name
	if nameOverride != "" {
		o.Name = nameOverride
	}
	o.ContractEvents = conf.Events
	o.DeclaredNamedTypes = conf.NamedTypes
	o.ContractSupportedStandards = conf.SupportedStandards
	o.Permissions = make([]manifest.Permission, len(conf.Permissions))
	for i := range conf.Permissions {
		o.Permissions[i] = manifest.Permission(conf.Permissions[i])
	}
	o.SafeMethods = conf.SafeMethods
	o.Overloads = conf.Overloads
	o.SourceURL = conf.SourceURL
	ne, di, err := compiler.CompileWithOptions(dir, nil, o)
	if err != nil {
		panic(HarnessError{Msg: fmt.Sprintf("chainkit: compile %s: %v", dir, err)})
	}
	m, err := compiler.CreateManifest(di, o)
	if err != nil {
		panic(HarnessError{Msg: fmt.Sprintf("chainkit: manifest of %s: %v", dir, err)})
	}
	nb, err := ne.Bytes()
	if err != nil {
		panic(err)
	}
	mb, err := json.Marshal(m)
	if err != nil {
		panic(err)
	}
	c := &Compiled{NEF: ne, Manifest: m, NEFBytes: nb, ManBytes: mb, Debug: di, dir: dir}
	compileCache[key] = c
	coverRegister(c)
	return c
}

// Contract returns contracts/<name>: compiled from the sources of the working
// tree, or - when VERIF_EMBEDDED is set - the executable and manifest shipped in
// the repository's Go package (what deploy.Deploy hands to the chain).
func Contract(name string) *Compiled { return ContractNamed(name, "") }

// ContractNamed is Contract with the manifest name replaced (several
// instances of one contract deployed by the same account need distinct names).
func ContractNamed(name, manifestName string) *Compiled {
	if os.Getenv("VERIF_EMBEDDED") != "" {
		return Embedded(name, manifestName)
	}
	return CompileDir(filepath.Join(RepoDir(), "contracts", name), manifestName)
}

var embeddedOrderFS = []string{"nns", "proxy", "audit", "netmap", "balance", "reputation", "neofsid", "container", "alphabet"}
var embeddedOrderMain = []string{"neofs", "processing"}

// ManifestNames maps directory names to manifest names.
var ManifestNames = map[string]string{
	"alphabet": "NeoFS Alphabet", "audit": "NeoFS Audit", "balance": "NeoFS Balance", "container": "NeoFS Container",
	"neofs": "NeoFS", "neofsid": "NeoFS ID", "netmap": "NeoFS Netmap", "nns": "NameService",
	"processing": "NeoFS Multi Signature Processing", "proxy": "NeoFS Notary Proxy", "reputation": "NeoFS Reputation",
}

// EmbeddedFSNames lists the names GetFS is documented to return, in order.
func EmbeddedFSNames() []string { return append([]string{}, embeddedOrderFS...) }

// Embedded wraps the executable shipped in package contracts.
func Embedded(name, manifestName string) *Compiled {
	compileMu.Lock()
	defer compileMu.Unlock()
	key := "embedded|" + name + "|" + manifestName
	if c, ok := compileCache[key]; ok {
		return c
	}
	var list []contracts.Contract
	var names []string
	var err error
	if name == "neofs" || name == "processing" {
		list, err = contracts.GetMain()
		names = embeddedOrderMain
	} else {
		list, err = contracts.GetFS()
		names = embeddedOrderFS
	}
	if err != nil {
		panic(HarnessError{Msg: fmt.Sprintf("chainkit: embedded contracts: %v (%d)", err, len(list))})
	}
	_ = names
	for i := range list {
		// matched by manifest name, not by position: the order is what C15 checks
		if list[i].Manifest.Name != ManifestNames[name] {
			continue
		}
		ne := list[i].NEF
		m := list[i].Manifest
		if manifestName != "" {
			m.Name = manifestName
		}
		nb, err := ne.Bytes()
		if err != nil {
			panic(HarnessError{Msg: "chainkit: embedded NEF: " + err.Error()})
		}
		mb, err := json.Marshal(&m)
		if err != nil {
			panic(err)
		}
		c := &Compiled{NEF: &ne, Manifest: &m, NEFBytes: nb, ManBytes: mb}
		compileCache[key] = c
		return c
	}
	panic(HarnessError{Msg: "chainkit: no embedded contract " + name})
}

// Probe compiles harness/probes/<name>; manifestName lets one source give
// several distinct contracts.
func Probe(name, manifestName string) *Compiled {
	return CompileDir(filepath.Join(HarnessDir(), "probes", name), manifestName)
}

// HashFor computes the hash a contract gets when deployed by sender.
func (c *Compiled) HashFor(sender util.Uint160) util.Uint160 {
	return state.CreateContractHash(sender, c.NEF.Checksum, c.Manifest.Name)
}

// DeployBy deploys a compiled contract in a transaction whose sender is
// signer (the deployer determines the contract hash) and returns the outcome
// and the hash.
func (c *Chain) DeployBy(signer neotest.Signer, cc *Compiled, data any) (*Outcome, util.Uint160) {
	script := Script(c.NativeHash(nativenames.Management), "deploy", cc.NEFBytes, cc.ManBytes, data)
	tx := c.signedTx(script, []neotest.Signer{signer}, false)
	c.AddBlock(0, tx)
	return c.outcome(tx.Hash()), cc.HashFor(signer.ScriptHash())
}

// Deploy deploys by the committee-majority account and panics on failure.
func (c *Chain) Deploy(cc *Compiled, data any) util.Uint160 {
	o, h := c.DeployBy(c.Committee, cc, data)
	if !o.Halt {
		panic(Failure{Msg: "chainkit: deploy of " + cc.Manifest.Name + " failed: " + o.Fault})
	}
	return h
}
