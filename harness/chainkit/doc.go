package chainkit
