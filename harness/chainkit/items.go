package chainkit

import (
	"encoding/hex"
	"fmt"
	"math/big"
	"sort"
	"strings"

	"github.com/nspcc-dev/neo-go/pkg/core/state"
	"github.com/nspcc-dev/neo-go/pkg/vm/stackitem"
)

// ItemString renders a stack item canonically (bytes as hex, ints as decimal).
// ByteString and Buffer render identically on purpose: values matter, not item
// types.
func ItemString(it stackitem.Item) string {
	switch it.Type() {
	case stackitem.AnyT:
		return "null"
	case stackitem.BooleanT:
		b, _ := it.TryBool()
		return fmt.Sprint(b)
	case stackitem.IntegerT:
		return "i" + it.Value().(*big.Int).String()
	case stackitem.ByteArrayT, stackitem.BufferT:
		b, _ := it.TryBytes()
		return "x" + hex.EncodeToString(b)
	case stackitem.ArrayT, stackitem.StructT:
		arr := it.Value().([]stackitem.Item)
		parts := make([]string, len(arr))
		for i := range arr {
			parts[i] = ItemString(arr[i])
		}
		return "[" + strings.Join(parts, ",") + "]"
	case stackitem.MapT:
		m := it.Value().([]stackitem.MapElement)
		parts := make([]string, len(m))
		for i := range m {
			parts[i] = ItemString(m[i].Key) + ":" + ItemString(m[i].Value)
		}
		sort.Strings(parts)
		return "{" + strings.Join(parts, ",") + "}"
	case stackitem.InteropT:
		return "interop"
	case stackitem.PointerT:
		return "pointer"
	}
	return "?"
}

// ItemsString renders a list of items.
func ItemsString(items []stackitem.Item) string {
	parts := make([]string, len(items))
	for i := range items {
		parts[i] = ItemString(items[i])
	}
	return "(" + strings.Join(parts, " ") + ")"
}

// EventString renders a notification.
func EventString(e state.NotificationEvent) string {
	return e.Name + "@" + e.ScriptHash.StringLE()[:6] + ItemString(e.Item)
}

// Top returns the only item on the result stack or nil.
func (o *Outcome) Top() stackitem.Item {
	if !o.Halt || len(o.Stack) == 0 {
		return nil
	}
	return o.Stack[len(o.Stack)-1]
}

// Int returns the top item as int64; ok is false for faults, null and non-integers.
func (o *Outcome) Int() (int64, bool) {
	b, ok := o.BigInt()
	if !ok || !b.IsInt64() {
		return 0, false
	}
	return b.Int64(), true
}

// BigInt returns the top item as big integer.
func (o *Outcome) BigInt() (*big.Int, bool) {
	t := o.Top()
	if t == nil || t.Type() == stackitem.AnyT {
		return nil, false
	}
	b, err := t.TryInteger()
	if err != nil {
		return nil, false
	}
	return b, true
}

// Bool returns the top item as bool.
func (o *Outcome) Bool() (bool, bool) {
	t := o.Top()
	if t == nil || t.Type() == stackitem.AnyT {
		return false, false
	}
	b, err := t.TryBool()
	if err != nil {
		return false, false
	}
	return b, true
}

// Bytes returns the top item as bytes (nil,true for Null).
func (o *Outcome) Bytes() ([]byte, bool) {
	t := o.Top()
	if t == nil {
		return nil, false
	}
	if t.Type() == stackitem.AnyT {
		return nil, true
	}
	b, err := t.TryBytes()
	if err != nil {
		return nil, false
	}
	return b, true
}

// Array returns the top item as a list of items (iterators are drained to
// arrays by Call; Null gives an empty list).
func (o *Outcome) Array() ([]stackitem.Item, bool) {
	t := o.Top()
	if t == nil {
		return nil, false
	}
	if t.Type() == stackitem.AnyT {
		return nil, true
	}
	arr, ok := t.Value().([]stackitem.Item)
	return arr, ok
}

// IsNull reports a HALT with Null on top.
func (o *Outcome) IsNull() bool {
	t := o.Top()
	return t != nil && t.Type() == stackitem.AnyT
}

// ItemBytes extracts bytes from an item or panics with a Failure.
func ItemBytes(it stackitem.Item) []byte {
	if it.Type() == stackitem.AnyT {
		return nil
	}
	b, err := it.TryBytes()
	if err != nil {
		panic(Failure{Msg: "item is not bytes: " + ItemString(it)})
	}
	return b
}

// ItemInt extracts an integer from an item or panics with a Failure.
func ItemInt(it stackitem.Item) int64 {
	b, err := it.TryInteger()
	if err != nil || !b.IsInt64() {
		panic(Failure{Msg: "item is not int64: " + ItemString(it)})
	}
	return b.Int64()
}

// ItemArr extracts a list from an item or panics with a Failure.
func ItemArr(it stackitem.Item) []stackitem.Item {
	if it.Type() == stackitem.AnyT {
		return nil
	}
	arr, ok := it.Value().([]stackitem.Item)
	if !ok {
		panic(Failure{Msg: "item is not an array: " + ItemString(it)})
	}
	return arr
}

// EventsNamed filters notifications by name (and emitter when h is non-nil).
func EventsNamed(evs []state.NotificationEvent, name string) []state.NotificationEvent {
	var res []state.NotificationEvent
	for _, e := range evs {
		if e.Name == name {
			res = append(res, e)
		}
	}
	return res
}
