package chainkit

import (
	"bytes"
	"fmt"
	"sort"

	"github.com/nspcc-dev/neo-go/pkg/core/native/nativenames"
	"github.com/nspcc-dev/neo-go/pkg/crypto/keys"
	"github.com/nspcc-dev/neo-go/pkg/neotest"
	"github.com/nspcc-dev/neo-go/pkg/wallet"
)

// Reelect replaces the whole committee through NEO voting: N fresh candidates register and receive the votes of
// 30 % of all NEO, blocks are added until getCommittee answers with the new keys. Afterwards the chain's Alphabet and
// Committee signers, Priv and Pubs are those of the new committee; the former Alphabet and committee-majority
// signers are returned and kept in FormerAlphabet/FormerCommittee. Blocks go on being signed by the original
// validators' account (neo-go does not check NextConsensus on import; neotest relies on the same).
func (c *Chain) Reelect(label string) (formerAlphabet, formerCommittee neotest.Signer) {
	neo := c.NativeHash(nativenames.Neo)
	priv := make([]*keys.PrivateKey, c.N)
	for i := range priv {
		priv[i] = DetKey(fmt.Sprintf("reelected-%s-%d", label, i))
	}
	sort.Slice(priv, func(i, j int) bool { return priv[i].PublicKey().Cmp(priv[j].PublicKey()) < 0 })
	pubs := make(keys.PublicKeys, c.N)
	must := func(what string, o *Outcome) {
		if !o.Halt {
			panic(HarnessError{Msg: "chainkit: re-election: " + what + ": " + o.Fault})
		}
		if b, ok := o.Bool(); ok && !b {
			panic(HarnessError{Msg: "chainkit: re-election: " + what + " answered false"})
		}
	}
	share := int64(30_000_000 / c.N)
	for i := range priv {
		pubs[i] = priv[i].PublicKey()
		cand := neotest.NewSingleSigner(wallet.NewAccountFromPrivateKey(priv[i]))
		voter := neotest.NewSingleSigner(DetAccount(fmt.Sprintf("voter-%s-%d", label, i)))
		must("NEO to the voter", c.Invoke([]neotest.Signer{c.Validators}, neo, "transfer", c.Validators.ScriptHash(), voter.ScriptHash(), share, nil))
		must("registerCandidate", c.Invoke([]neotest.Signer{cand}, neo, "registerCandidate", pubs[i].Bytes()))
		must("vote", c.Invoke([]neotest.Signer{voter}, neo, "vote", voter.ScriptHash(), pubs[i].Bytes()))
	}
	elected := func() bool {
		arr, ok := c.Call(nil, neo, "getCommittee").Array()
		if !ok || len(arr) != c.N {
			return false
		}
		for i := range arr {
			if !bytes.Equal(ItemBytes(arr[i]), pubs[i].Bytes()) {
				return false
			}
		}
		return true
	}
	for i := 0; i < 2*c.N+3 && !elected(); i++ {
		c.AddBlock(0)
	}
	if !elected() {
		panic(HarnessError{Msg: "chainkit: re-election: the committee did not change"})
	}
	formerAlphabet, formerCommittee = c.Alphabet, c.Committee
	c.FormerAlphabet, c.FormerCommittee = formerAlphabet, formerCommittee
	c.Priv, c.Pubs = priv, pubs
	c.Alphabet = multisig(AlphabetThreshold(c.N), priv, pubs)
	c.Committee = multisig(MajorityThreshold(c.N), priv, pubs)
	for _, s := range []neotest.Signer{c.Alphabet, c.Committee} {
		c.FundGAS(s.ScriptHash(), 1_000_0000_0000)
	}
	return formerAlphabet, formerCommittee
}
