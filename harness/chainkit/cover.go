package chainkit

import (
	"encoding/json"
	"fmt"
	"os"
	"path/filepath"
	"strings"
	"sync"

	"github.com/nspcc-dev/neo-go/pkg/core/block"
	"github.com/nspcc-dev/neo-go/pkg/core/interop"
	"github.com/nspcc-dev/neo-go/pkg/core/transaction"
	"github.com/nspcc-dev/neo-go/pkg/smartcontract/callflag"
	"github.com/nspcc-dev/neo-go/pkg/smartcontract/trigger"
	"github.com/nspcc-dev/neo-go/pkg/util"
	"github.com/nspcc-dev/neo-go/pkg/vm"
	"github.com/nspcc-dev/neo-go/pkg/vm/opcode"
)

// Contract source coverage (a measurement aid, not part of any oracle): with
// VERIF_COVER=<dir> every transaction is additionally executed in a test VM with
// an instruction hook before its block is persisted, test invocations are hooked
// directly, and the visited offsets of the repository's contracts are written to
// <dir>/cov-<pid>.json together with the compiler's sequence points.

var (
	coverDir   = os.Getenv("VERIF_COVER")
	coverMu    sync.Mutex
	coverByCks = map[uint32]*Compiled{}
	coverHits  = map[string]map[int]int{}
)

// CoverEnabled reports whether coverage is being collected.
func CoverEnabled() bool { return coverDir != "" }

func coverRegister(cc *Compiled) {
	if coverDir == "" || cc.Debug == nil || !strings.HasPrefix(cc.dir, filepath.Join(RepoDir(), "contracts")) {
		return
	}
	coverMu.Lock()
	coverByCks[cc.NEF.Checksum] = cc
	coverMu.Unlock()
}

func (c *Chain) coverHook(ic *interop.Context) vm.OnExecHook {
	known := map[util.Uint160]*Compiled{}
	return func(h util.Uint160, offset int, _ opcode.Opcode) {
		cc, seen := known[h]
		if !seen {
			// (the context's own view: a contract deployed or updated by this very transaction is found too)
			// (negative answers are not cached: an update inside this transaction changes the executable under h)
			if cs, err := ic.GetContract(h); err == nil && cs != nil {
				coverMu.Lock()
				cc = coverByCks[cs.NEF.Checksum]
				coverMu.Unlock()
				if cc != nil {
					known[h] = cc
				}
			}
		}
		if cc == nil {
			return
		}
		coverMu.Lock()
		m := coverHits[cc.dir]
		if m == nil {
			m = map[int]int{}
			coverHits[cc.dir] = m
		}
		m[offset]++
		coverMu.Unlock()
	}
}

// coverShadow executes the transactions of a block that is about to be persisted in hooked test VMs.
func (c *Chain) coverShadow(b *block.Block) {
	if coverDir == "" {
		return
	}
	for _, tx := range b.Transactions {
		func() {
			defer func() { _ = recover() }()
			ttx := *tx
			fake := &block.Block{Header: block.Header{Index: b.Index, Timestamp: b.Timestamp, PrevHash: b.PrevHash}}
			ic, err := c.BC.GetTestVM(trigger.Application, &ttx, fake)
			if err != nil {
				return
			}
			defer ic.Finalize()
			ic.VM.GasLimit = 2000_0000_0000
			ic.VM.SetOnExecHook(c.coverHook(ic))
			ic.VM.LoadWithFlags(tx.Script, callflag.All)
			_ = ic.VM.Run()
		}()
	}
}

var _ = transaction.Transaction{}

// FlushCoverage writes what this process collected.
func FlushCoverage() {
	if coverDir == "" {
		return
	}
	coverMu.Lock()
	defer coverMu.Unlock()
	type seqPoint struct {
		Opcode     int    `json:"o"`
		Doc        string `json:"d"`
		Start, End int
	}
	out := struct {
		Hits map[string]map[string]int `json:"hits"`
		Seq  map[string][]seqPoint     `json:"seq"`
	}{map[string]map[string]int{}, map[string][]seqPoint{}}
	for _, cc := range coverByCks {
		if _, done := out.Seq[cc.dir]; done {
			continue
		}
		var pts []seqPoint
		for _, m := range cc.Debug.Methods {
			for _, p := range m.SeqPoints {
				pts = append(pts, seqPoint{p.Opcode, cc.Debug.Documents[p.Document], p.StartLine, p.EndLine})
			}
		}
		out.Seq[cc.dir] = pts
	}
	for d, m := range coverHits {
		hm := map[string]int{}
		for o, n := range m {
			hm[fmt.Sprint(o)] = n
		}
		out.Hits[d] = hm
	}
	_ = os.MkdirAll(coverDir, 0o755)
	b, _ := json.Marshal(out)
	_ = os.WriteFile(filepath.Join(coverDir, fmt.Sprintf("cov-%d.json", os.Getpid())), b, 0o644)
}
