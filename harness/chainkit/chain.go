// Package chainkit runs the real contracts of the working tree on an in-memory
// neo-go blockchain with an n-key committee. It is deliberately thin: it builds
// real transactions (signers, witnesses, fees), persists them in real blocks
// and reads the application log back. Oracles live elsewhere.
package chainkit

import (
	"bytes"
	"crypto/sha256"
	"encoding/hex"
	"fmt"
	"sort"
	"strings"
	"testing"
	"time"

	"github.com/nspcc-dev/neo-go/pkg/config"
	"github.com/nspcc-dev/neo-go/pkg/config/netmode"
	"github.com/nspcc-dev/neo-go/pkg/core"
	"github.com/nspcc-dev/neo-go/pkg/core/block"
	"github.com/nspcc-dev/neo-go/pkg/core/native/nativenames"
	"github.com/nspcc-dev/neo-go/pkg/core/state"
	"github.com/nspcc-dev/neo-go/pkg/core/storage"
	"github.com/nspcc-dev/neo-go/pkg/core/transaction"
	"github.com/nspcc-dev/neo-go/pkg/crypto/keys"
	"github.com/nspcc-dev/neo-go/pkg/neotest"
	"github.com/nspcc-dev/neo-go/pkg/smartcontract"
	"github.com/nspcc-dev/neo-go/pkg/smartcontract/callflag"
	"github.com/nspcc-dev/neo-go/pkg/smartcontract/trigger"
	"github.com/nspcc-dev/neo-go/pkg/util"
	"github.com/nspcc-dev/neo-go/pkg/vm/stackitem"
	"github.com/nspcc-dev/neo-go/pkg/vm/vmstate"
	"github.com/nspcc-dev/neo-go/pkg/wallet"
	"go.uber.org/zap"
)

// Options tunes NewChain.
type Options struct {
	P2PSig bool // enable P2PSigExtensions (Notary native contract)
	// Validators is the number of consensus nodes (0 = the whole committee); the first keys of the
	// (sorted) committee are the standby validators.
	Validators int
}

// Chain is an in-memory blockchain with an n-key committee (= validators =
// NeoFS Alphabet, as in NeoFS FS chains).
type Chain struct {
	T  *TB
	BC *core.Blockchain
	N  int

	Priv []*keys.PrivateKey // committee keys sorted by public key
	Pubs keys.PublicKeys

	Validators neotest.Signer // block signers, n-(n-1)/3 of n
	Alphabet   neotest.Signer // 2n/3+1 of n multisig (what contracts call the Alphabet)
	Committee  neotest.Signer // n/2+1 of n multisig (committee majority)
	Payer      neotest.Signer // pays all fees with scope None so that it never witnesses anything

	// NextScope, when set, is the witness scope of the signers of the next prepared transaction (then it resets to
	// the default, Global). CalledByEntry: the witnesses are valid in the contract called by the entry script only,
	// not in contracts that one calls.
	NextScope transaction.WitnessScope

	// set by Reelect: the Alphabet and committee-majority accounts of the committee that was voted out
	FormerAlphabet, FormerCommittee neotest.Signer

	// FixedSysFee, when positive, is used as the system fee of every prepared
	// transaction instead of a test run: needed when several transactions share
	// a block and the state they will see differs from the one a test run sees.
	FixedSysFee int64

	nonce  uint32
	userNo int
	closed bool
}

// DetKey derives a deterministic private key from a label. No crypto/rand is
// used anywhere in the harness, so a run is a pure function of the seed.
func DetKey(label string) *keys.PrivateKey {
	for ctr := 0; ; ctr++ {
		h := sha256.Sum256([]byte(fmt.Sprintf("verif-key|%s|%d", label, ctr)))
		k, err := keys.NewPrivateKeyFromBytes(h[:])
		if err == nil {
			return k
		}
	}
}

// DetAccount returns a simple-signature account for a deterministic key.
func DetAccount(label string) *wallet.Account {
	return wallet.NewAccountFromPrivateKey(DetKey(label))
}

func multisig(m int, priv []*keys.PrivateKey, pubs keys.PublicKeys) neotest.Signer {
	accs := make([]*wallet.Account, len(priv))
	for i := range priv {
		a := wallet.NewAccountFromPrivateKey(priv[i])
		if err := a.ConvertMultisig(m, pubs.Copy()); err != nil {
			panic(err)
		}
		accs[i] = a
	}
	return neotest.NewMultiSigner(accs...)
}

// Multisig returns an m-of-len(priv) multisig signer over arbitrary keys.
func Multisig(m int, priv []*keys.PrivateKey) neotest.Signer {
	p := append([]*keys.PrivateKey{}, priv...)
	sort.Slice(p, func(i, j int) bool { return p[i].PublicKey().Cmp(p[j].PublicKey()) < 0 })
	pubs := make(keys.PublicKeys, len(p))
	for i := range p {
		pubs[i] = p[i].PublicKey()
	}
	return multisig(m, p, pubs)
}

// MultisigOf returns an m-of-committee multisig signer.
func (c *Chain) MultisigOf(m int) neotest.Signer { return multisig(m, c.Priv, c.Pubs) }

// Member returns the simple account signer of committee member i.
func (c *Chain) Member(i int) neotest.SingleSigner {
	return neotest.NewSingleSigner(wallet.NewAccountFromPrivateKey(c.Priv[i]))
}

// AlphabetThreshold is 2n/3+1.
func AlphabetThreshold(n int) int { return n*2/3 + 1 }

// MajorityThreshold is n/2+1.
func MajorityThreshold(n int) int { return n/2 + 1 }

// NewChain creates a chain with an n-key committee.
func NewChain(t testing.TB, n int, opts Options) *Chain {
	tb := NewTB(t)
	priv := make([]*keys.PrivateKey, n)
	for i := range priv {
		priv[i] = DetKey(fmt.Sprintf("committee-%d", i))
	}
	sort.Slice(priv, func(i, j int) bool { return priv[i].PublicKey().Cmp(priv[j].PublicKey()) < 0 })
	pubs := make(keys.PublicKeys, n)
	sc := make([]string, n)
	for i := range priv {
		pubs[i] = priv[i].PublicKey()
		sc[i] = hex.EncodeToString(pubs[i].Bytes())
	}
	nv := n
	if opts.Validators > 0 && opts.Validators < n {
		nv = opts.Validators
	}
	cfg := config.Blockchain{
		ProtocolConfiguration: config.ProtocolConfiguration{
			Magic:                           netmode.UnitTestNet,
			MaxTraceableBlocks:              1000000,
			TimePerBlock:                    time.Second,
			StandbyCommittee:                sc,
			ValidatorsCount:                 uint32(nv),
			VerifyTransactions:              true,
			P2PSigExtensions:                opts.P2PSig,
			P2PNotaryRequestPayloadPoolSize: 1000,
		},
	}
	bc, err := core.NewBlockchain(storage.NewMemoryStore(), cfg, zap.NewNop())
	if err != nil {
		panic(fmt.Sprintf("chainkit: NewBlockchain: %v", err))
	}
	go bc.Run()
	c := &Chain{T: tb, BC: bc, N: n, Priv: priv, Pubs: pubs}
	c.Validators = multisig(smartcontract.GetDefaultHonestNodeCount(nv), priv[:nv], pubs[:nv])
	c.Alphabet = multisig(AlphabetThreshold(n), priv, pubs)
	c.Committee = multisig(MajorityThreshold(n), priv, pubs)
	c.Payer = neotest.NewSingleSigner(DetAccount("payer"))

	// Genesis GAS sits on the validators' account. Fund the payer and the two
	// other multisig accounts from it (bootstrap transactions pay for themselves).
	gas := c.NativeHash(nativenames.Gas)
	for _, dst := range []util.Uint160{c.Payer.ScriptHash(), c.Alphabet.ScriptHash(), c.Committee.ScriptHash()} {
		if dst == c.Validators.ScriptHash() {
			continue
		}
		script, err := smartcontract.CreateCallScript(gas, "transfer", c.Validators.ScriptHash(), dst, int64(1_000_000_0000_0000), nil)
		if err != nil {
			panic(err)
		}
		tx := c.signedTx(script, []neotest.Signer{c.Validators}, false)
		c.AddBlock(0, tx)
		if o := c.outcome(tx.Hash()); !o.Halt {
			panic("chainkit: bootstrap funding failed: " + o.Fault)
		}
	}
	return c
}

// Close stops the chain. Safe to call twice.
func (c *Chain) Close() {
	if c.closed {
		return
	}
	c.closed = true
	c.T.RunCleanups()
	c.BC.Close()
}

// NativeHash returns the hash of a native contract.
func (c *Chain) NativeHash(name string) util.Uint160 {
	h, err := c.BC.GetNativeContractScriptHash(name)
	if err != nil {
		panic(err)
	}
	return h
}

// Height is the index of the top block.
func (c *Chain) Height() uint32 { return c.BC.BlockHeight() }

// TopBlock returns the latest block.
func (c *Chain) TopBlock() *block.Block {
	b, err := c.BC.GetBlock(c.BC.GetHeaderHash(c.BC.BlockHeight()))
	if err != nil {
		panic(err)
	}
	return b
}

// Now is the timestamp (ms) of the top block.
func (c *Chain) Now() uint64 { return c.TopBlock().Timestamp }

// NewUser returns a fresh deterministic single-key account funded with GAS.
func (c *Chain) NewUser(gas int64) neotest.SingleSigner {
	c.userNo++
	s := neotest.NewSingleSigner(DetAccount(fmt.Sprintf("user-%d", c.userNo)))
	if gas > 0 {
		c.FundGAS(s.ScriptHash(), gas)
	}
	return s
}

// NamedUser returns a deterministic single-key account (not funded).
func NamedUser(label string) neotest.SingleSigner {
	return neotest.NewSingleSigner(DetAccount("named-" + label))
}

// FundGAS moves GAS from the validators' account.
func (c *Chain) FundGAS(to util.Uint160, amount int64) {
	o := c.Invoke([]neotest.Signer{c.Validators}, c.NativeHash(nativenames.Gas), "transfer", c.Validators.ScriptHash(), to, amount, nil)
	if !o.Halt {
		panic("chainkit: FundGAS: " + o.Fault)
	}
}

// GAS returns the GAS balance of acc.
func (c *Chain) GAS(acc util.Uint160) int64 { return c.BC.GetUtilityTokenBalance(acc).Int64() }

// NEO returns the NEO balance of acc.
func (c *Chain) NEO(acc util.Uint160) int64 {
	b, _ := c.BC.GetGoverningTokenBalance(acc)
	return b.Int64()
}

// Outcome is what a transaction (or a test invocation) did.
type Outcome struct {
	Halt   bool
	Fault  string
	Stack  []stackitem.Item
	Events []state.NotificationEvent
	// FaultEvents holds what a FAULTed transaction had emitted before failing (informational).
	FaultEvents []state.NotificationEvent
	Block       uint32 // index of the block holding the transaction (0 for test invocations)
	Time        uint64 // timestamp of that block
	TxHash      util.Uint256
	Gas         int64
}

// FaultHas reports whether the invocation faulted with a message containing s.
func (o *Outcome) FaultHas(s string) bool { return !o.Halt && strings.Contains(o.Fault, s) }

func (o *Outcome) String() string {
	if o.Halt {
		return "HALT" + ItemsString(o.Stack)
	}
	return "FAULT(" + o.Fault + ")"
}

func dedupe(signers []neotest.Signer) []neotest.Signer {
	var res []neotest.Signer
	seen := map[util.Uint160]bool{}
	for _, s := range signers {
		if s == nil || seen[s.ScriptHash()] {
			continue
		}
		seen[s.ScriptHash()] = true
		res = append(res, s)
	}
	return res
}

func (c *Chain) nextNonce() uint32 { c.nonce++; return c.nonce }

// signedTx builds a transaction. With payer=true the fee payer comes first with
// scope None (witnesses nothing), the given signers follow with Global scope.
func (c *Chain) signedTx(script []byte, signers []neotest.Signer, payer bool) *transaction.Transaction {
	signers = dedupe(signers)
	tx := transaction.New(script, 0)
	tx.Nonce = c.nextNonce()
	tx.ValidUntilBlock = c.BC.BlockHeight() + 1
	var all []neotest.Signer
	if payer {
		payerIsSigner := false
		for _, s := range signers {
			if s.ScriptHash() == c.Payer.ScriptHash() {
				payerIsSigner = true
			}
		}
		if !payerIsSigner {
			all = append(all, c.Payer)
			tx.Signers = append(tx.Signers, transaction.Signer{Account: c.Payer.ScriptHash(), Scopes: transaction.None})
		}
	}
	scope := transaction.Global
	if c.NextScope != 0 {
		scope, c.NextScope = c.NextScope, 0
	}
	for _, s := range signers {
		all = append(all, s)
		tx.Signers = append(tx.Signers, transaction.Signer{Account: s.ScriptHash(), Scopes: scope})
	}
	if len(all) == 0 {
		panic("chainkit: transaction without signers")
	}
	neotest.AddNetworkFee(c.T, c.BC, tx, all...)
	if c.FixedSysFee > 0 {
		tx.SystemFee = c.FixedSysFee
	} else {
		o := c.testRun(tx, c.Now()+1)
		// A margin keeps the outcome independent of small state differences.
		tx.SystemFee = o.Gas + o.Gas/2 + 1_0000_0000
	}
	for _, s := range all {
		if err := s.SignTx(c.BC.GetConfig().Magic, tx); err != nil {
			panic(err)
		}
	}
	return tx
}

// Script builds a call script.
func Script(h util.Uint160, method string, args ...any) []byte {
	script, err := smartcontract.CreateCallScript(h, method, args...)
	if err != nil {
		panic(HarnessError{Msg: fmt.Sprintf("chainkit: cannot build script for %s: %v", method, err)})
	}
	return script
}

// Prepare builds a signed transaction calling h.method(args) (not yet persisted).
func (c *Chain) Prepare(signers []neotest.Signer, h util.Uint160, method string, args ...any) *transaction.Transaction {
	return c.signedTx(Script(h, method, args...), signers, true)
}

// PrepareScript builds a signed transaction running script.
func (c *Chain) PrepareScript(signers []neotest.Signer, script []byte) *transaction.Transaction {
	return c.signedTx(script, signers, true)
}

// ScopedSigner is a signer with an explicit witness scope.
type ScopedSigner struct {
	S       neotest.Signer
	Scope   transaction.WitnessScope
	Allowed []util.Uint160 // for CustomContracts
}

// PrepareScoped builds a signed transaction whose signers carry the given witness scopes; the first one
// is the sender and pays the fees (no separate payer is added).
func (c *Chain) PrepareScoped(script []byte, signers []ScopedSigner) *transaction.Transaction {
	tx := transaction.New(script, 0)
	tx.Nonce = c.nextNonce()
	tx.ValidUntilBlock = c.BC.BlockHeight() + 1
	var all []neotest.Signer
	for _, s := range signers {
		all = append(all, s.S)
		tx.Signers = append(tx.Signers, transaction.Signer{Account: s.S.ScriptHash(), Scopes: s.Scope, AllowedContracts: s.Allowed})
	}
	neotest.AddNetworkFee(c.T, c.BC, tx, all...)
	if c.FixedSysFee > 0 {
		tx.SystemFee = c.FixedSysFee
	} else {
		o := c.testRun(tx, c.Now()+1)
		tx.SystemFee = o.Gas + o.Gas/2 + 1_0000_0000
	}
	for _, s := range all {
		if err := s.SignTx(c.BC.GetConfig().Magic, tx); err != nil {
			panic(err)
		}
	}
	return tx
}

// AddBlock persists a block holding txs; its timestamp is last+max(1,tsDelta).
func (c *Chain) AddBlock(tsDelta uint64, txs ...*transaction.Transaction) *block.Block {
	last := c.TopBlock()
	if tsDelta == 0 {
		tsDelta = 1
	}
	b := &block.Block{
		Header: block.Header{
			NextConsensus: c.Validators.ScriptHash(),
			Script:        transaction.Witness{VerificationScript: c.Validators.Script()},
			Timestamp:     last.Timestamp + tsDelta,
			PrevHash:      last.Hash(),
			Index:         last.Index + 1,
		},
		Transactions: txs,
	}
	b.RebuildMerkleRoot()
	b.Script.InvocationScript = c.Validators.SignHashable(uint32(c.BC.GetConfig().Magic), b)
	c.coverShadow(b)
	if err := c.BC.AddBlock(b); err != nil {
		panic(Failure{Msg: fmt.Sprintf("chainkit: AddBlock: %v", err)})
	}
	return b
}

func (c *Chain) outcome(h util.Uint256) *Outcome {
	aers, err := c.BC.GetAppExecResults(h, trigger.Application)
	if err != nil || len(aers) != 1 {
		panic(fmt.Sprintf("chainkit: no exec result for %s: %v", h.StringLE(), err))
	}
	a := aers[0]
	_, height, _ := c.BC.GetTransaction(h)
	o := &Outcome{Halt: a.VMState == vmstate.Halt, Fault: a.FaultException, Stack: a.Stack, Events: a.Events, Block: height, TxHash: h, Gas: a.GasConsumed}
	if !o.Halt {
		// neo-go keeps the notifications a transaction emitted before it faulted in
		// the application log, but the state is rolled back and nobody may rely on
		// them: they are not "emitted" in the sense of any property.
		o.FaultEvents, o.Events = o.Events, nil
	}
	if hdr, err := c.BC.GetHeader(c.BC.GetHeaderHash(height)); err == nil {
		o.Time = hdr.Timestamp
	}
	return o
}

// Invoke persists one transaction in its own block (timestamp last+1).
func (c *Chain) Invoke(signers []neotest.Signer, h util.Uint160, method string, args ...any) *Outcome {
	tx := c.Prepare(signers, h, method, args...)
	c.AddBlock(0, tx)
	return c.outcome(tx.Hash())
}

// InvokeAt is Invoke with a block timestamp of last+tsDelta.
func (c *Chain) InvokeAt(tsDelta uint64, signers []neotest.Signer, h util.Uint160, method string, args ...any) *Outcome {
	tx := c.Prepare(signers, h, method, args...)
	c.AddBlock(tsDelta, tx)
	return c.outcome(tx.Hash())
}

// InvokeScript persists a transaction running an arbitrary script.
func (c *Chain) InvokeScript(signers []neotest.Signer, script []byte) *Outcome {
	tx := c.PrepareScript(signers, script)
	c.AddBlock(0, tx)
	return c.outcome(tx.Hash())
}

// InvokeBlock persists several prepared transactions in one block.
func (c *Chain) InvokeBlock(tsDelta uint64, txs ...*transaction.Transaction) []*Outcome {
	c.AddBlock(tsDelta, txs...)
	res := make([]*Outcome, len(txs))
	for i := range txs {
		res[i] = c.outcome(txs[i].Hash())
	}
	return res
}

// Skip adds k empty blocks.
func (c *Chain) Skip(k int) {
	for i := 0; i < k; i++ {
		c.AddBlock(0)
	}
}

type iter interface {
	Next() bool
	Value() stackitem.Item
}

func drain(items []stackitem.Item) []stackitem.Item {
	for i, it := range items {
		if it.Type() == stackitem.InteropT {
			if x, ok := it.Value().(iter); ok {
				vals := []stackitem.Item{}
				for len(vals) < 100000 && x.Next() {
					vals = append(vals, x.Value())
				}
				items[i] = stackitem.NewArray(vals)
			}
		}
	}
	return items
}

// testRun executes tx.Script in a test VM on top of the current state, in a
// fake block with the given timestamp. Nothing is persisted.
func (c *Chain) testRun(tx *transaction.Transaction, ts uint64) *Outcome {
	return c.testRunInspect(tx, ts, nil)
}

// testRunInspect is testRun plus a look at the uncommitted state the
// invocation produced (only meaningful for HALT: a faulted transaction's
// changes are discarded by the ledger).
func (c *Chain) testRunInspect(tx *transaction.Transaction, ts uint64, inspect func(seek func(id int32, f func(k, v []byte) bool))) *Outcome {
	b := &block.Block{Header: block.Header{Index: c.BC.BlockHeight() + 1, Timestamp: ts, PrevHash: c.BC.CurrentBlockHash()}}
	ttx := *tx
	ic, err := c.BC.GetTestVM(trigger.Application, &ttx, b)
	if err != nil {
		panic(err)
	}
	defer ic.Finalize()
	ic.VM.GasLimit = 2000_0000_0000
	if coverDir != "" {
		ic.VM.SetOnExecHook(c.coverHook(ic))
	}
	ic.VM.LoadWithFlags(tx.Script, callflag.All)
	err = ic.VM.Run()
	o := &Outcome{Gas: ic.VM.GasConsumed(), Time: ts}
	if err != nil {
		o.Fault = err.Error()
		return o
	}
	o.Halt = true
	if inspect != nil {
		inspect(func(id int32, f func(k, v []byte) bool) { ic.DAO.Seek(id, storage.SeekRange{}, f) })
	}
	o.Stack = drain(ic.VM.Estack().ToArray())
	// ToArray returns top first; AppExecResult lists bottom... keep AER order.
	for i, j := 0, len(o.Stack)-1; i < j; i, j = i+1, j-1 {
		o.Stack[i], o.Stack[j] = o.Stack[j], o.Stack[i]
	}
	o.Events = append(o.Events, ic.Notifications...)
	return o
}

// Call is a side-effect free test invocation witnessed by signers (Global
// scope), executed as if in the next block (timestamp last+1).
func (c *Chain) Call(signers []neotest.Signer, h util.Uint160, method string, args ...any) *Outcome {
	return c.CallAt(c.Now()+1, signers, h, method, args...)
}

// CallAt is Call with an explicit block timestamp.
func (c *Chain) CallAt(ts uint64, signers []neotest.Signer, h util.Uint160, method string, args ...any) *Outcome {
	return c.CallScriptAt(ts, signers, Script(h, method, args...))
}

// CallState is Call that additionally returns the storage contract h would
// have after the invocation (nil unless HALT).
func (c *Chain) CallState(signers []neotest.Signer, h util.Uint160, script []byte) (*Outcome, map[string][]byte) {
	cs := c.BC.GetContractState(h)
	var st map[string][]byte
	tx := c.testTx(signers, script)
	o := c.testRunInspect(tx, c.Now()+1, func(seek func(id int32, f func(k, v []byte) bool)) {
		st = map[string][]byte{}
		seek(cs.ID, func(k, v []byte) bool {
			st[string(bytes.Clone(k))] = bytes.Clone(v)
			return true
		})
	})
	return o, st
}

// CallScriptAt runs an arbitrary script in test mode.
func (c *Chain) CallScriptAt(ts uint64, signers []neotest.Signer, script []byte) *Outcome {
	return c.testRun(c.testTx(signers, script), ts)
}

func (c *Chain) testTx(signers []neotest.Signer, script []byte) *transaction.Transaction {
	tx := transaction.New(script, 0)
	tx.Nonce = 0
	tx.ValidUntilBlock = c.BC.BlockHeight() + 1
	for _, s := range dedupe(signers) {
		tx.Signers = append(tx.Signers, transaction.Signer{Account: s.ScriptHash(), Scopes: transaction.Global})
	}
	if len(tx.Signers) == 0 {
		tx.Signers = []transaction.Signer{{Account: c.Payer.ScriptHash(), Scopes: transaction.None}}
	}
	return tx
}

// ---------------------------------------------------------------------------
// Snapshots

// Snapshot is the full storage of every non-native contract plus token
// balances of a watch list.
type Snapshot map[string]string

// ContractIDs lists ids of deployed (non-native) contracts.
func (c *Chain) ContractIDs() []int32 {
	var ids []int32
	miss := 0
	for id := int32(1); miss < 8; id++ {
		if _, err := c.BC.GetContractScriptHash(id); err != nil {
			miss++
			continue
		}
		miss = 0
		ids = append(ids, id)
	}
	return ids
}

// Storage returns all storage items of a contract as hexkey->hexvalue.
func (c *Chain) Storage(h util.Uint160) map[string][]byte {
	cs := c.BC.GetContractState(h)
	res := map[string][]byte{}
	if cs == nil {
		return res
	}
	c.BC.SeekStorage(cs.ID, nil, func(k, v []byte) bool {
		res[string(bytes.Clone(k))] = bytes.Clone(v)
		return true
	})
	return res
}

// Snapshot captures storage of all deployed contracts and GAS/NEO balances of watch.
func (c *Chain) Snapshot(watch ...util.Uint160) Snapshot {
	s := Snapshot{}
	for _, id := range c.ContractIDs() {
		c.BC.SeekStorage(id, nil, func(k, v []byte) bool {
			s[fmt.Sprintf("c%d:%x", id, k)] = hex.EncodeToString(v)
			return true
		})
		h, _ := c.BC.GetContractScriptHash(id)
		cs := c.BC.GetContractState(h)
		if cs != nil {
			s[fmt.Sprintf("c%d#upd", id)] = fmt.Sprint(cs.UpdateCounter, cs.NEF.Checksum)
			s[fmt.Sprintf("gas:%s", h.StringLE())] = fmt.Sprint(c.GAS(h))
			s[fmt.Sprintf("neo:%s", h.StringLE())] = fmt.Sprint(c.NEO(h))
		}
	}
	for _, w := range watch {
		s[fmt.Sprintf("gas:%s", w.StringLE())] = fmt.Sprint(c.GAS(w))
		s[fmt.Sprintf("neo:%s", w.StringLE())] = fmt.Sprint(c.NEO(w))
	}
	return s
}

// Diff lists keys whose values differ.
func Diff(a, b Snapshot) []string {
	var res []string
	for k, v := range a {
		if w, ok := b[k]; !ok {
			res = append(res, "-"+k)
		} else if v != w {
			res = append(res, "~"+k)
		}
	}
	for k := range b {
		if _, ok := a[k]; !ok {
			res = append(res, "+"+k)
		}
	}
	sort.Strings(res)
	return res
}
