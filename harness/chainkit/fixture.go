package chainkit

import (
	"fmt"

	"github.com/nspcc-dev/neo-go/pkg/core/native/nativenames"
	"github.com/nspcc-dev/neo-go/pkg/core/native/noderoles"
	"github.com/nspcc-dev/neo-go/pkg/crypto/keys"
	"github.com/nspcc-dev/neo-go/pkg/neotest"
	"github.com/nspcc-dev/neo-go/pkg/util"
)

// FS is an FS-chain fixture: NNS (id 1) plus a chosen subset of the NeoFS
// contracts, each registered under <name>.neofs exactly as the repository's
// own tests (and the deployment procedure) do.
type FS struct {
	*Chain
	H map[string]util.Uint160 // contract name -> hash ("nns", "netmap", ..., "alphabet0")
}

// FSOptions selects what NewFS deploys.
type FSOptions struct {
	Contracts    []string // subset of netmap,balance,neofsid,container,proxy,audit,reputation,alphabet (in dependency order)
	NetmapConfig []any    // key, value, key, value ...
	P2PSig       bool
}

// Both returns the committee-majority and the Alphabet signer (they coincide
// for n<=2); deployments need both: the hash is derived from the first one,
// subscribeForNewEpoch wants the Alphabet, NNS wants the committee.
// On chains with fewer consensus nodes than committee members the fixture carries their witness too, so that
// a tree which confuses the two still gets a world in which the property can be judged.
func (c *Chain) Both() []neotest.Signer {
	s := []neotest.Signer{c.Committee, c.Alphabet}
	if vh := c.Validators.ScriptHash(); vh != c.Committee.ScriptHash() && vh != c.Alphabet.ScriptHash() {
		s = append(s, c.Validators)
	}
	return s
}

// DeployWith deploys with an explicit signer list (first = sender).
func (c *Chain) DeployWith(signers []neotest.Signer, cc *Compiled, data any) (*Outcome, util.Uint160) {
	script := Script(c.NativeHash(nativenames.Management), "deploy", cc.NEFBytes, cc.ManBytes, data)
	tx := c.signedTx(script, signers, false)
	c.AddBlock(0, tx)
	return c.outcome(tx.Hash()), cc.HashFor(signers[0].ScriptHash())
}

func (c *Chain) mustDeploy(cc *Compiled, data any) util.Uint160 {
	o, h := c.DeployWith(c.Both(), cc, data)
	if !o.Halt {
		panic(HarnessError{Msg: "fixture: deploy of " + cc.Manifest.Name + " failed: " + o.Fault})
	}
	return h
}

const tenYearsSec = int64(10 * 365 * 24 * 3600)

// RegisterNNS registers <name>.neofs for the committee and stores h as TXT.
func (f *FS) RegisterNNS(name string, h util.Uint160) {
	nns := f.H["nns"]
	o := f.Invoke(f.Both(), nns, "register", name+".neofs", f.Committee.ScriptHash(), "ops@nspcc.ru", int64(3600), int64(600), tenYearsSec, int64(3600))
	if b, ok := o.Bool(); !o.Halt || !ok || !b {
		panic(HarnessError{Msg: "fixture: NNS register " + name + ": " + o.String()})
	}
	o = f.Invoke(f.Both(), nns, "addRecord", name+".neofs", int64(16), h.StringLE())
	if !o.Halt {
		panic(HarnessError{Msg: "fixture: NNS addRecord " + name + ": " + o.String()})
	}
}

// NewFS builds the fixture on a fresh n-key chain.
func NewFS(c *Chain, opts FSOptions) *FS {
	f := &FS{Chain: c, H: map[string]util.Uint160{}}
	f.H["nns"] = c.mustDeploy(Contract("nns"), []any{[]any{[]any{"neofs", "ops@nspcc.io"}}})
	for _, name := range opts.Contracts {
		switch name {
		case "netmap":
			args := []any{false, util.Uint160{}, util.Uint160{}, []any{c.Pubs[0].Bytes()}, opts.NetmapConfig}
			f.H[name] = c.mustDeploy(Contract(name), args)
			f.RegisterNNS(name, f.H[name])
		case "balance":
			f.H[name] = c.mustDeploy(Contract(name), []any{false, util.Uint160{}, util.Uint160{}})
			f.RegisterNNS(name, f.H[name])
		case "neofsid":
			f.H[name] = c.mustDeploy(Contract(name), []any{false, nil, nil, nil, nil})
			f.RegisterNNS(name, f.H[name])
		case "container":
			args := []any{int64(0), f.H["netmap"], f.H["balance"], f.H["neofsid"], f.H["nns"], "container"}
			f.H[name] = c.mustDeploy(Contract(name), args)
			f.RegisterNNS(name, f.H[name])
		case "proxy":
			f.H[name] = c.mustDeploy(Contract(name), nil)
			f.RegisterNNS(name, f.H[name])
		case "audit", "reputation":
			f.H[name] = c.mustDeploy(Contract(name), []any{false})
			f.RegisterNNS(name, f.H[name])
		case "alphabet":
			for i := 0; i < c.N; i++ {
				nm := fmt.Sprintf("alphabet%d", i)
				cc := ContractNamed("alphabet", nm)
				f.H[nm] = c.mustDeploy(cc, []any{false, f.H["netmap"], f.H["proxy"], nm, int64(i), int64(c.N)})
				f.RegisterNNS(nm, f.H[nm])
			}
		default:
			panic("fixture: unknown contract " + name)
		}
	}
	return f
}

// DesignateAlphabet sets the NeoFSAlphabet role (what contracts call the Inner
// Ring) to the given keys.
func (c *Chain) DesignateAlphabet(pubs keys.PublicKeys) {
	c.Designate(noderoles.NeoFSAlphabet, pubs)
}

// Designate sets a role through the native RoleManagement contract.
func (c *Chain) Designate(role noderoles.Role, pubs keys.PublicKeys) {
	arr := make([]any, len(pubs))
	for i := range pubs {
		arr[i] = pubs[i].Bytes()
	}
	o := c.Invoke(c.Both(), c.NativeHash(nativenames.Designation), "designateAsRole", int64(role), arr)
	if !o.Halt {
		panic(HarnessError{Msg: "fixture: designateAsRole: " + o.Fault})
	}
}
