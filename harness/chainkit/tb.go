package chainkit

import (
	"fmt"
	"testing"
)

// Failure is the panic value used by the TB adapter when a helper that
// expects a testing.TB (neotest, testify/require) declares the test failed.
// rapid records a panic as "the case fails" and shrinks it; killing the
// goroutine through the real (*testing.T).FailNow would not allow that.
type Failure struct{ Msg string }

// HarnessError is the panic value for conditions that make a check impossible to
// run (a contract that does not compile, a fixture that cannot be deployed):
// the run is inconclusive, it is never reported as a violation of a property.
type HarnessError struct{ Msg string }

func (f HarnessError) Error() string  { return f.Msg }
func (f HarnessError) String() string { return f.Msg }

func (f Failure) Error() string  { return f.Msg }
func (f Failure) String() string { return f.Msg }

// TB adapts a real *testing.T (needed only for testing.TB's unexported method)
// so that it can be handed to neotest helpers from inside a rapid property.
type TB struct {
	testing.TB
	msgs     []string
	cleanups []func()
}

// NewTB wraps t.
func NewTB(t testing.TB) *TB { return &TB{TB: t} }

func (t *TB) Helper()                   {}
func (t *TB) Name() string              { return "verif" }
func (t *TB) Log(args ...any)           {}
func (t *TB) Logf(string, ...any)       {}
func (t *TB) Cleanup(f func())          { t.cleanups = append(t.cleanups, f) }
func (t *TB) Failed() bool              { return len(t.msgs) > 0 }
func (t *TB) Fail()                     { t.msgs = append(t.msgs, "Fail()") }
func (t *TB) Error(args ...any)         { t.msgs = append(t.msgs, fmt.Sprint(args...)) }
func (t *TB) Errorf(f string, a ...any) { t.msgs = append(t.msgs, fmt.Sprintf(f, a...)) }
func (t *TB) FailNow() {
	m := "FailNow"
	if len(t.msgs) > 0 {
		m = t.msgs[len(t.msgs)-1]
	}
	panic(Failure{Msg: m})
}
func (t *TB) Fatal(args ...any)         { panic(Failure{Msg: fmt.Sprint(args...)}) }
func (t *TB) Fatalf(f string, a ...any) { panic(Failure{Msg: fmt.Sprintf(f, a...)}) }
func (t *TB) Skip(args ...any)          { panic(Failure{Msg: "skip: " + fmt.Sprint(args...)}) }
func (t *TB) Skipf(f string, a ...any)  { panic(Failure{Msg: "skip: " + fmt.Sprintf(f, a...)}) }
func (t *TB) SkipNow()                  { panic(Failure{Msg: "skip"}) }
func (t *TB) TempDir() string           { return t.TB.TempDir() }

// RunCleanups runs the registered cleanups in reverse order.
func (t *TB) RunCleanups() {
	for i := len(t.cleanups) - 1; i >= 0; i-- {
		t.cleanups[i]()
	}
	t.cleanups = nil
}
