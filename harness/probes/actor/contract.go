// Package actor is a probe contract: an account that is a contract. It forwards
// calls (so that it is the *calling contract* of the target) and accepts any
// NEP-11 / NEP-17 payment.
package actor

import (
	"github.com/nspcc-dev/neo-go/pkg/interop"
	"github.com/nspcc-dev/neo-go/pkg/interop/contract"
)

// Call forwards a call with all flags.
func Call(h interop.Hash160, method string, args []any) any {
	return contract.Call(h, method, contract.All, args...)
}

// OnNEP11Payment accepts everything.
func OnNEP11Payment(from interop.Hash160, amount int, token []byte, data any) {}

// OnNEP17Payment accepts everything.
func OnNEP17Payment(from interop.Hash160, amount int, data any) {}
