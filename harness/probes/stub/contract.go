// Package stub is a stand-in for an *old* contract version: it lets the harness
// install arbitrary storage and then update to the contract of the working tree
// while reporting any version number to its _deploy.
package stub

import (
	"github.com/nspcc-dev/neo-go/pkg/interop"
	"github.com/nspcc-dev/neo-go/pkg/interop/contract"
	"github.com/nspcc-dev/neo-go/pkg/interop/native/management"
	"github.com/nspcc-dev/neo-go/pkg/interop/storage"
)

// Put stores raw bytes.
func Put(k []byte, v []byte) {
	storage.Put(storage.GetContext(), k, v)
}

// PutInt stores an integer.
func PutInt(k []byte, v int) {
	storage.Put(storage.GetContext(), k, v)
}

// PutBool stores a boolean.
func PutBool(k []byte, v bool) {
	storage.Put(storage.GetContext(), k, v)
}

// PutMany stores several raw pairs.
func PutMany(kv [][]byte) {
	ctx := storage.GetContext()
	for i := 0; i+1 < len(kv); i += 2 {
		storage.Put(ctx, kv[i], kv[i+1])
	}
}

// Del removes a key.
func Del(k []byte) {
	storage.Delete(storage.GetContext(), k)
}

// Upgrade replaces this contract; version is appended to data as the real
// contracts' Update methods do through common.AppendVersion.
func Upgrade(nef []byte, manifest []byte, data []any, version int) {
	data = append(data, version)
	contract.Call(interop.Hash160(management.Hash), "update", contract.All, nef, manifest, data)
}

// NewEpoch lets the stub be a netmap subscriber stand-in.
func NewEpoch(e int) {}

// OnNEP11Payment accepts NNS tokens.
func OnNEP11Payment(from interop.Hash160, amount int, token []byte, data any) {}

// OnNEP17Payment accepts tokens.
func OnNEP17Payment(from interop.Hash160, amount int, data any) {}
