// Package resolver exposes the contract-side NNS read path of the repository
// (common.ResolveFSContract) to the harness.
package resolver

import (
	"github.com/nspcc-dev/neo-go/pkg/interop"
	"github.com/nspcc-dev/neofs-contract/common"
)

// Resolve returns the hash registered for name in the neofs zone.
func Resolve(name string) interop.Hash160 {
	return common.ResolveFSContract(name)
}
