// Package subscriber is a probe contract that can subscribe for netmap epochs.
package subscriber

import (
	"github.com/nspcc-dev/neo-go/pkg/interop/runtime"
	"github.com/nspcc-dev/neo-go/pkg/interop/storage"
)

// NewEpoch notifies ProbeEpoch(e) or panics when the reject flag is set.
func NewEpoch(e int) {
	ctx := storage.GetContext()
	if storage.Get(ctx, "reject") != nil {
		panic("probe subscriber rejects the epoch")
	}
	cnt := 0
	if v := storage.Get(ctx, "calls"); v != nil {
		cnt = v.(int)
	}
	storage.Put(ctx, "calls", cnt+1)
	storage.Put(ctx, "last", e)
	runtime.Notify("ProbeEpoch", e)
}

// SetReject switches rejection on or off.
func SetReject(on bool) {
	ctx := storage.GetContext()
	if on {
		storage.Put(ctx, "reject", 1)
	} else {
		storage.Delete(ctx, "reject")
	}
}

// Calls returns how many epochs were delivered.
func Calls() int {
	v := storage.Get(storage.GetReadOnlyContext(), "calls")
	if v == nil {
		return 0
	}
	return v.(int)
}
