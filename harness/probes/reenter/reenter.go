// Package reenter is a probe payee: when it receives a NEP-17 payment it calls
// back a stored method of a stored contract (at most a stored number of times),
// the way a hostile contract account would.
package reenter

import (
	"github.com/nspcc-dev/neo-go/pkg/interop"
	"github.com/nspcc-dev/neo-go/pkg/interop/contract"
	"github.com/nspcc-dev/neo-go/pkg/interop/native/std"
	"github.com/nspcc-dev/neo-go/pkg/interop/runtime"
	"github.com/nspcc-dev/neo-go/pkg/interop/storage"
)

// Arm stores the call to make on payment.
func Arm(target interop.Hash160, method string, args []any, count int) {
	ctx := storage.GetContext()
	storage.Put(ctx, "target", target)
	storage.Put(ctx, "method", method)
	storage.Put(ctx, "args", std.Serialize(args))
	storage.Put(ctx, "count", count)
}

// OnNEP17Payment re-enters the armed contract.
func OnNEP17Payment(from interop.Hash160, amount int, data any) {
	ctx := storage.GetContext()
	v := storage.Get(ctx, "count")
	if v == nil || v.(int) <= 0 {
		return
	}
	storage.Put(ctx, "count", v.(int)-1)
	done := 0
	if d := storage.Get(ctx, "done"); d != nil {
		done = d.(int)
	}
	storage.Put(ctx, "done", done+1)
	runtime.Notify("ProbeReenter", amount)
	args := std.Deserialize(storage.Get(ctx, "args").([]byte)).([]any)
	contract.Call(storage.Get(ctx, "target").(interop.Hash160), storage.Get(ctx, "method").(string), contract.All, args...)
}

// OnNEP11Payment re-enters the armed contract when a non-fungible token arrives.
func OnNEP11Payment(from interop.Hash160, amount int, tokenID []byte, data any) {
	OnNEP17Payment(from, amount, data)
}

// Done returns how many times the probe re-entered.
func Done() int {
	d := storage.Get(storage.GetReadOnlyContext(), "done")
	if d == nil {
		return 0
	}
	return d.(int)
}

// Call makes the probe itself call a method (so that it is the calling contract, e.g. the owner it registers a name for).
func Call(target interop.Hash160, method string, args []any) any {
	return contract.Call(target, method, contract.All, args...)
}
