// Package token is a minimal foreign NEP-17-like token used to show that the
// governance contracts refuse anything but GAS (and NEO for Alphabet).
package token

import (
	"github.com/nspcc-dev/neo-go/pkg/interop"
	"github.com/nspcc-dev/neo-go/pkg/interop/contract"
	"github.com/nspcc-dev/neo-go/pkg/interop/native/management"
	"github.com/nspcc-dev/neo-go/pkg/interop/runtime"
	"github.com/nspcc-dev/neo-go/pkg/interop/storage"
)

// Transfer moves amount (no balance checks: everybody is infinitely rich) and
// calls onNEP17Payment of a contract receiver like a real NEP-17 token does.
func Transfer(from, to interop.Hash160, amount int, data any) bool {
	ctx := storage.GetContext()
	cur := 0
	if v := storage.Get(ctx, to); v != nil {
		cur = v.(int)
	}
	storage.Put(ctx, to, cur+amount)
	runtime.Notify("Transfer", from, to, amount)
	if management.GetContract(to) != nil {
		contract.Call(to, "onNEP17Payment", contract.All, from, amount, data)
	}
	return true
}

// BalanceOf returns what was received.
func BalanceOf(acc interop.Hash160) int {
	v := storage.Get(storage.GetReadOnlyContext(), acc)
	if v == nil {
		return 0
	}
	return v.(int)
}
