// Package simchain implements deploy.Blockchain directly on an in-process
// neo-go core.Blockchain: no sockets, no RPC server. It provides what the
// deployment procedure needs - script/function invocation, fee calculation,
// transaction submission, a notary request pool with the real neo-go Notary
// service, block and notary-request subscriptions - and leaves block
// production to the harness, so that a schedule (who starts when, who is
// cancelled at which block) is owned by the test.
package simchain

import (
	"context"
	"errors"
	"fmt"
	"os"
	"path/filepath"
	"slices"
	"sort"
	"strings"
	"sync"
	"sync/atomic"
	"time"

	"github.com/google/uuid"
	"github.com/nspcc-dev/neo-go/pkg/config"
	"github.com/nspcc-dev/neo-go/pkg/config/netmode"
	"github.com/nspcc-dev/neo-go/pkg/core"
	"github.com/nspcc-dev/neo-go/pkg/core/block"
	"github.com/nspcc-dev/neo-go/pkg/core/mempool"
	"github.com/nspcc-dev/neo-go/pkg/core/mempoolevent"
	"github.com/nspcc-dev/neo-go/pkg/core/state"
	"github.com/nspcc-dev/neo-go/pkg/core/storage"
	"github.com/nspcc-dev/neo-go/pkg/core/transaction"
	"github.com/nspcc-dev/neo-go/pkg/crypto/hash"
	"github.com/nspcc-dev/neo-go/pkg/crypto/keys"
	"github.com/nspcc-dev/neo-go/pkg/encoding/address"
	"github.com/nspcc-dev/neo-go/pkg/io"
	"github.com/nspcc-dev/neo-go/pkg/neorpc"
	"github.com/nspcc-dev/neo-go/pkg/neorpc/result"
	"github.com/nspcc-dev/neo-go/pkg/network"
	"github.com/nspcc-dev/neo-go/pkg/network/payload"
	"github.com/nspcc-dev/neo-go/pkg/services/notary"
	"github.com/nspcc-dev/neo-go/pkg/smartcontract"
	"github.com/nspcc-dev/neo-go/pkg/smartcontract/callflag"
	"github.com/nspcc-dev/neo-go/pkg/smartcontract/manifest"
	"github.com/nspcc-dev/neo-go/pkg/smartcontract/trigger"
	"github.com/nspcc-dev/neo-go/pkg/util"
	"github.com/nspcc-dev/neo-go/pkg/vm"
	"github.com/nspcc-dev/neo-go/pkg/vm/emit"
	"github.com/nspcc-dev/neo-go/pkg/vm/stackitem"
	"github.com/nspcc-dev/neo-go/pkg/wallet"
	"go.uber.org/zap"
)

// Sim is one shared in-process chain with an n-key committee (= validators).
type Sim struct {
	BC      *core.Blockchain
	Keys    []*keys.PrivateKey // committee keys sorted by public key
	Accs    []*wallet.Account  // simple accounts of the members
	ValAccs []*wallet.Account  // validators' multi-signature account, one instance per member
	magic   netmode.Magic
	dir     string

	npool *mempool.Pool
	feer  network.NotaryFeer
	ntr   *notary.Notary

	mu        sync.Mutex
	blockSubs []chan *block.Block
	reqSubs   []chan *result.NotaryRequestEvent
	lastCall  atomic.Int64
	SentTx    atomic.Int64
	SentReq   atomic.Int64
	msPerBlk  int
	closed    bool
}

// New creates the chain. keyOf derives the i-th committee key deterministically.
func New(n int, keyOf func(i int) *keys.PrivateKey) (*Sim, error) {
	dir, err := os.MkdirTemp("", "verif-simchain-")
	if err != nil {
		return nil, err
	}
	ks := make([]*keys.PrivateKey, n)
	for i := range ks {
		ks[i] = keyOf(i)
	}
	sort.Slice(ks, func(i, j int) bool { return ks[i].PublicKey().Cmp(ks[j].PublicKey()) < 0 })
	pubs := make(keys.PublicKeys, n)
	sc := make([]string, n)
	for i := range ks {
		pubs[i] = ks[i].PublicKey()
		sc[i] = pubs[i].StringCompressed()
	}
	cfg := config.Blockchain{ProtocolConfiguration: config.ProtocolConfiguration{
		Magic: netmode.UnitTestNet, MaxTraceableBlocks: 200000, TimePerBlock: time.Second,
		StandbyCommittee: sc, ValidatorsCount: uint32(n), VerifyTransactions: true,
		P2PSigExtensions: true, P2PNotaryRequestPayloadPoolSize: 1000,
	}}
	bc, err := core.NewBlockchain(storage.NewMemoryStore(), cfg, zap.NewNop())
	if err != nil {
		os.RemoveAll(dir)
		return nil, err
	}
	go bc.Run()
	s := &Sim{BC: bc, Keys: ks, magic: netmode.UnitTestNet, msPerBlk: 20, dir: dir}
	mv := smartcontract.GetDefaultHonestNodeCount(n)
	for i := range ks {
		s.Accs = append(s.Accs, wallet.NewAccountFromPrivateKey(ks[i]))
		kc, _ := keys.NewPrivateKeyFromBytes(ks[i].Bytes())
		a := wallet.NewAccountFromPrivateKey(kc)
		if err := a.ConvertMultisig(mv, pubs.Copy()); err != nil {
			return nil, err
		}
		s.ValAccs = append(s.ValAccs, a)
	}
	// Notary service of one node of the network, run by member 0's key (its own key copy: Close wipes it).
	w, err := wallet.NewWallet(filepath.Join(dir, "notary.json"))
	if err != nil {
		return nil, err
	}
	pkc, _ := keys.NewPrivateKeyFromBytes(ks[0].Bytes())
	na := wallet.NewAccountFromPrivateKey(pkc)
	if err := na.Encrypt("pass", keys.ScryptParams{N: 2, R: 1, P: 1}); err != nil {
		return nil, err
	}
	w.AddAccount(na)
	w.Scrypt = keys.ScryptParams{N: 2, R: 1, P: 1}
	if err := w.Save(); err != nil {
		return nil, err
	}
	w.Close()
	s.feer = network.NewNotaryFeer(bc)
	s.npool = mempool.New(1000, 1, true, nil)
	bc.RegisterPostBlock(func(isRelevant func(*transaction.Transaction, *mempool.Pool, bool) bool, txpool *mempool.Pool, _ *block.Block) {
		s.npool.RemoveStale(func(t *transaction.Transaction) bool { return isRelevant(t, txpool, true) }, s.feer)
	})
	ntr, err := notary.NewNotary(notary.Config{
		MainCfg: config.P2PNotary{Enabled: true, UnlockWallet: config.Wallet{Path: filepath.Join(dir, "notary.json"), Password: "pass"}},
		Chain:   bc, Log: zap.NewNop(),
	}, netmode.UnitTestNet, s.npool, func(tx *transaction.Transaction) error { return bc.PoolTx(tx) })
	if err != nil {
		return nil, err
	}
	s.ntr = ntr
	bc.SetNotary(ntr)
	ch := make(chan mempoolevent.Event, 1000)
	s.npool.RunSubscriptions()
	s.npool.SubscribeForTransactions(ch)
	ntr.Start()
	go func() {
		for ev := range ch {
			req, ok := ev.Data.(*payload.P2PNotaryRequest)
			if !ok {
				continue
			}
			s.mu.Lock()
			subs := slices.Clone(s.reqSubs)
			s.mu.Unlock()
			for _, c := range subs {
				select {
				case c <- &result.NotaryRequestEvent{Type: ev.Type, NotaryRequest: req}:
				default:
				}
			}
		}
	}()
	return s, nil
}

// Close stops everything and removes the scratch directory.
func (s *Sim) Close() {
	s.mu.Lock()
	if s.closed {
		s.mu.Unlock()
		return
	}
	s.closed = true
	s.mu.Unlock()
	s.ntr.Shutdown()
	s.npool.StopSubscriptions()
	s.BC.Close()
	os.RemoveAll(s.dir)
}

// IdleFor reports for how long no member issued a (non-polling) call.
func (s *Sim) IdleFor() time.Duration { return time.Since(time.Unix(0, s.lastCall.Load())) }

// ProduceBlock builds, signs and persists a block from the verified mempool
// and fans it out to the block subscribers.
func (s *Sim) ProduceBlock() (*block.Block, error) {
	bc := s.BC
	txs := []*transaction.Transaction{}
	txs = append(txs, bc.GetMemPool().GetVerifiedTransactions()...)
	last, err := bc.GetBlock(bc.GetHeaderHash(bc.BlockHeight()))
	if err != nil {
		return nil, err
	}
	valScript := s.ValAccs[0].Contract.Script
	b := &block.Block{Header: block.Header{
		NextConsensus: hash.Hash160(valScript),
		Script:        transaction.Witness{VerificationScript: valScript},
		Timestamp:     last.Timestamp + 1,
		PrevHash:      last.Hash(),
		Index:         bc.BlockHeight() + 1,
	}, Transactions: txs}
	b.RebuildMerkleRoot()
	m := smartcontract.GetDefaultHonestNodeCount(len(s.Keys))
	w := io.NewBufBinWriter()
	for i := 0; i < m; i++ {
		sig := s.Keys[i].SignHashable(uint32(s.magic), b)
		w.WriteB(0x0C)
		w.WriteB(byte(len(sig)))
		w.WriteBytes(sig)
	}
	b.Script.InvocationScript = w.Bytes()
	if err := bc.AddBlock(b); err != nil {
		return nil, err
	}
	s.mu.Lock()
	subs := slices.Clone(s.blockSubs)
	s.mu.Unlock()
	for _, c := range subs {
		select {
		case c <- b:
		default:
		}
	}
	return b, nil
}

// Member is one committee member's view of the chain (implements deploy.Blockchain).
type Member struct {
	*Sim
	Ctx context.Context
}

// NewMember returns a view bound to ctx.
func (s *Sim) NewMember(ctx context.Context) *Member { return &Member{Sim: s, Ctx: ctx} }

func (m *Member) touch() { m.lastCall.Store(time.Now().UnixNano()) }

// Context implements the polling waiter's requirement.
func (m *Member) Context() context.Context { return m.Ctx }

func (m *Member) GetBlockCount() (uint32, error) { return m.BC.BlockHeight() + 1, nil }

func (m *Member) GetVersion() (*result.Version, error) {
	cfg := m.BC.GetConfig()
	return &result.Version{
		Protocol: result.Protocol{
			AddressVersion: address.NEO3Prefix, Network: cfg.Magic, MillisecondsPerBlock: m.msPerBlk,
			MaxTraceableBlocks: cfg.MaxTraceableBlocks, MaxValidUntilBlockIncrement: cfg.MaxValidUntilBlockIncrement,
			MaxTransactionsPerBlock: cfg.MaxTransactionsPerBlock, MemoryPoolMaxTransactions: cfg.MemPoolSize,
			ValidatorsCount: byte(cfg.GetNumOfCNs(m.BC.BlockHeight())), InitialGasDistribution: cfg.InitialGASSupply,
			CommitteeHistory: cfg.CommitteeHistory, P2PSigExtensions: cfg.P2PSigExtensions, StateRootInHeader: cfg.StateRootInHeader, ValidatorsHistory: cfg.ValidatorsHistory,
		},
	}, nil
}

func (m *Member) GetCommittee() (keys.PublicKeys, error) { m.touch(); return m.BC.GetCommittee() }

func (m *Member) GetContractStateByID(id int32) (*state.Contract, error) {
	m.touch()
	h, err := m.BC.GetContractScriptHash(id)
	if err != nil {
		return nil, neorpc.ErrUnknownContract
	}
	return m.GetContractStateByHash(h)
}

func (m *Member) GetContractStateByHash(h util.Uint160) (*state.Contract, error) {
	m.touch()
	cs := m.BC.GetContractState(h)
	if cs == nil {
		return nil, neorpc.ErrUnknownContract
	}
	return cs, nil
}

func (m *Member) SubscribeToNewBlocks() (<-chan *block.Block, error) {
	ch := make(chan *block.Block, 10000)
	m.mu.Lock()
	m.blockSubs = append(m.blockSubs, ch)
	m.mu.Unlock()
	return ch, nil
}

func (m *Member) SubscribeToNotaryRequests() (<-chan *result.NotaryRequestEvent, error) {
	ch := make(chan *result.NotaryRequestEvent, 10000)
	m.mu.Lock()
	m.reqSubs = append(m.reqSubs, ch)
	m.mu.Unlock()
	return ch, nil
}

func (m *Member) TerminateSession(uuid.UUID) (bool, error) { return true, nil }
func (m *Member) TraverseIterator(uuid.UUID, uuid.UUID, int) ([]stackitem.Item, error) {
	return nil, errors.New("sessions are not supported by simchain (iterators are returned expanded)")
}

func (m *Member) fakeTx(script []byte, signers []transaction.Signer, wits []transaction.Witness) *transaction.Transaction {
	tx := transaction.New(script, 0)
	tx.Signers = signers
	if len(tx.Signers) == 0 {
		tx.Signers = []transaction.Signer{{Account: util.Uint160{}, Scopes: transaction.None}}
	}
	tx.Scripts = wits
	for len(tx.Scripts) < len(tx.Signers) {
		tx.Scripts = append(tx.Scripts, transaction.Witness{})
	}
	tx.ValidUntilBlock = m.BC.BlockHeight() + 1
	return tx
}

func (m *Member) run(t trigger.Type, script []byte, contract util.Uint160, tx *transaction.Transaction) (*result.Invoke, error) {
	ic, err := m.BC.GetTestVM(t, tx, nil)
	if err != nil {
		return nil, err
	}
	defer ic.Finalize()
	ic.VM.GasLimit = 100_0000_0000
	if t == trigger.Verification {
		ic.VM.GasLimit = min(ic.VM.GasLimit, m.BC.GetMaxVerificationGAS())
		if err := m.BC.InitVerificationContext(ic, contract, &transaction.Witness{InvocationScript: script, VerificationScript: []byte{}}); err != nil {
			return nil, err
		}
	} else {
		ic.VM.LoadScriptWithFlags(script, callflag.All)
	}
	err = ic.VM.Run()
	var fault string
	if err != nil {
		fault = err.Error()
	}
	items := ic.VM.Estack().ToArray()
	for i, it := range items {
		if it.Type() == stackitem.InteropT {
			if iter, ok := it.Value().(interface {
				Next() bool
				Value() stackitem.Item
			}); ok {
				var vals []stackitem.Item
				for len(vals) < 2048 && iter.Next() {
					vals = append(vals, iter.Value())
				}
				items[i] = stackitem.NewInterop(result.Iterator{Values: vals})
			}
		}
	}
	return &result.Invoke{
		State: ic.VM.State().String(), GasConsumed: ic.VM.GasConsumed(), Script: script, Stack: items,
		FaultException: fault, Notifications: ic.Notifications,
	}, nil
}

func (m *Member) InvokeScript(script []byte, signers []transaction.Signer) (*result.Invoke, error) {
	m.touch()
	return m.run(trigger.Application, script, util.Uint160{}, m.fakeTx(script, signers, nil))
}

func (m *Member) InvokeFunction(contract util.Uint160, operation string, params []smartcontract.Parameter, signers []transaction.Signer) (*result.Invoke, error) {
	m.touch()
	ps := make([]any, len(params))
	for i := range params {
		v, err := smartcontract.ExpandParameterToEmitable(params[i])
		if err != nil {
			return nil, err
		}
		ps[i] = v
	}
	script, err := smartcontract.CreateCallScript(contract, operation, ps...)
	if err != nil {
		return nil, err
	}
	return m.InvokeScript(script, signers)
}

func (m *Member) InvokeContractVerify(contract util.Uint160, params []smartcontract.Parameter, signers []transaction.Signer, witnesses ...transaction.Witness) (*result.Invoke, error) {
	m.touch()
	w := io.NewBufBinWriter()
	for i := len(params) - 1; i >= 0; i-- {
		v, err := smartcontract.ExpandParameterToEmitable(params[i])
		if err != nil {
			return nil, err
		}
		emit.Any(w.BinWriter, v)
	}
	if w.Err != nil {
		return nil, w.Err
	}
	inv := w.Bytes()
	return m.run(trigger.Verification, inv, contract, m.fakeTx(inv, signers, witnesses))
}

func (m *Member) CalculateNetworkFee(txp *transaction.Transaction) (int64, error) {
	m.touch()
	tx := txp.Copy()
	hashablePart, err := tx.EncodeHashableFields()
	if err != nil {
		return 0, err
	}
	size := len(hashablePart) + io.GetVarSize(len(tx.Signers))
	var netFee int64
	gasLimit := m.BC.GetMaxVerificationGAS()
	for i, signer := range tx.Signers {
		w := tx.Scripts[i]
		if len(w.InvocationScript) == 0 {
			var paramz []manifest.Parameter
			if len(w.VerificationScript) == 0 {
				cs := m.BC.GetContractState(signer.Account)
				if cs == nil {
					return 0, fmt.Errorf("%w: signer %d has no verification script and no deployed contract", neorpc.ErrInvalidVerificationFunction, i)
				}
				md := cs.Manifest.ABI.GetMethod(manifest.MethodVerify, -1)
				if md == nil || md.ReturnType != smartcontract.BoolType {
					return 0, fmt.Errorf("%w: signer %d has no verify method", neorpc.ErrInvalidVerificationFunction, i)
				}
				paramz = md.Parameters
			} else if vm.IsSignatureContract(w.VerificationScript) {
				paramz = []manifest.Parameter{{Type: smartcontract.SignatureType}}
			} else if nSigs, _, ok := vm.ParseMultiSigContract(w.VerificationScript); ok {
				paramz = make([]manifest.Parameter, nSigs)
				for j := range paramz {
					paramz[j] = manifest.Parameter{Type: smartcontract.SignatureType}
				}
			}
			inv := io.NewBufBinWriter()
			for _, p := range paramz {
				p.Type.EncodeDefaultValue(inv.BinWriter)
			}
			w.InvocationScript = inv.Bytes()
		}
		gasConsumed, err := m.BC.VerifyWitness(signer.Account, tx, &w, gasLimit)
		if err != nil && !errors.Is(err, core.ErrInvalidSignature) {
			return 0, fmt.Errorf("%w: witness %d: %s", neorpc.ErrInvalidSignature, i, err)
		}
		gasLimit -= gasConsumed
		netFee += gasConsumed
		size += io.GetVarSize(w.VerificationScript) + io.GetVarSize(w.InvocationScript)
	}
	netFee += int64(size)*m.BC.FeePerByte() + m.BC.CalculateAttributesFee(tx)
	return netFee, nil
}

func mapPoolErr(err error) error {
	switch {
	case err == nil:
		return nil
	case errors.Is(err, core.ErrAlreadyExists):
		return fmt.Errorf("%w: %s", neorpc.ErrAlreadyExists, err)
	case errors.Is(err, core.ErrAlreadyInPool):
		return fmt.Errorf("%w: %s", neorpc.ErrAlreadyInPool, err)
	case errors.Is(err, core.ErrOOM):
		return fmt.Errorf("%w: %s", neorpc.ErrMempoolCapReached, err)
	case errors.Is(err, core.ErrPolicy):
		return fmt.Errorf("%w: %s", neorpc.ErrPolicyFailed, err)
	case errors.Is(err, core.ErrInsufficientFunds), errors.Is(err, core.ErrMemPoolConflict):
		return fmt.Errorf("%w: %s", neorpc.ErrInsufficientFunds, err)
	case errors.Is(err, core.ErrTxExpired):
		return fmt.Errorf("%w: %s", neorpc.ErrExpiredTransaction, err)
	case errors.Is(err, core.ErrTxSmallNetworkFee):
		return fmt.Errorf("%w: %s", neorpc.ErrInsufficientNetworkFee, err)
	case errors.Is(err, core.ErrInvalidScript):
		return fmt.Errorf("%w: %s", neorpc.ErrInvalidScript, err)
	case errors.Is(err, core.ErrInvalidAttribute):
		return fmt.Errorf("%w: %s", neorpc.ErrInvalidAttribute, err)
	default:
		return fmt.Errorf("%w: %s", neorpc.ErrVerificationFailed, err)
	}
}

func (m *Member) SendRawTransaction(tx *transaction.Transaction) (util.Uint256, error) {
	m.touch()
	m.SentTx.Add(1)
	err := m.BC.PoolTx(tx)
	return tx.Hash(), mapPoolErr(err)
}

func (m *Member) SubmitP2PNotaryRequest(req *payload.P2PNotaryRequest) (util.Uint256, error) {
	m.touch()
	m.SentReq.Add(1)
	bc := m.BC
	verify := func(_ *transaction.Transaction, data any) error {
		r := data.(*payload.P2PNotaryRequest)
		payer := r.FallbackTransaction.Signers[1].Account
		if _, err := bc.VerifyWitness(payer, r, &r.Witness, bc.GetMaxVerificationGAS()); err != nil {
			return fmt.Errorf("bad P2PNotaryRequest payload witness: %w", err)
		}
		nh := bc.GetNotaryContractScriptHash()
		if r.FallbackTransaction.Sender() != nh {
			return errors.New("P2PNotary contract should be a sender of the fallback transaction")
		}
		if r.MainTransaction.Sender() == nh {
			return errors.New("P2PNotary contract is not allowed to be the sender of the main transaction")
		}
		if r.FallbackTransaction.ValidUntilBlock >= bc.GetNotaryDepositExpiration(payer) {
			return errors.New("fallback transaction is valid after deposit is unlocked")
		}
		return nil
	}
	err := bc.PoolTxWithData(req.FallbackTransaction, req, m.npool, m.feer, verify)
	if err != nil && !strings.Contains(err.Error(), "already") {
		return util.Uint256{}, mapPoolErr(err)
	}
	return req.FallbackTransaction.Hash(), mapPoolErr(err)
}

func (m *Member) GetApplicationLog(h util.Uint256, trig *trigger.Type) (*result.ApplicationLog, error) {
	t := trigger.All
	if trig != nil {
		t = *trig
	}
	aers, err := m.BC.GetAppExecResults(h, t)
	if err != nil {
		return nil, neorpc.ErrUnknownScriptContainer
	}
	r := result.NewApplicationLog(h, aers, t)
	return &r, nil
}
