package props

import (
	"fmt"
	"github.com/nspcc-dev/neo-go/pkg/core/native/nativenames"
	"math/big"
	"os"
	"os/exec"
	"path/filepath"
	"strings"
	"sync"
	"testing"

	"github.com/nspcc-dev/neo-go/pkg/crypto/keys"
	"github.com/nspcc-dev/neo-go/pkg/encoding/bigint"
	"github.com/nspcc-dev/neo-go/pkg/neotest"
	"github.com/nspcc-dev/neo-go/pkg/util"
	"github.com/nspcc-dev/neo-go/pkg/vm/stackitem"
	"pgregory.net/rapid"

	"verif/harness/chainkit"
	"verif/harness/ev"
)

// prevVersion reads the oldest supported version from common/version.go of the tree.
func prevVersion() int64 {
	b, err := os.ReadFile(filepath.Join(chainkit.RepoDir(), "common", "version.go"))
	if err != nil {
		panic(chainkit.HarnessError{Msg: err.Error()})
	}
	var ma, mi, pa int64 = -1, -1, -1
	for _, line := range strings.Split(string(b), "\n") {
		l := strings.TrimSpace(line)
		fmt.Sscanf(l, "prevMajor = %d", &ma)
		fmt.Sscanf(l, "prevMinor = %d", &mi)
		fmt.Sscanf(l, "prevPatch = %d", &pa)
	}
	if ma < 0 || mi < 0 || pa < 0 {
		panic(chainkit.HarnessError{Msg: "cannot read prevMajor/prevMinor/prevPatch from common/version.go"})
	}
	return ma*1_000_000 + mi*1_000 + pa
}

var (
	bumpOnce sync.Once
	bumpDir  string
)

// bumpedRepo makes a scratch copy of the contract sources whose version
// constant is one minor above the working tree's, so that an update differs
// from the deployed contract in nothing but the version.
func bumpedRepo() string {
	bumpOnce.Do(func() {
		dir, err := os.MkdirTemp("", "verif-c16-")
		if err != nil {
			panic(chainkit.HarnessError{Msg: err.Error()})
		}
		repo := chainkit.RepoDir()
		for _, f := range []string{"go.mod", "go.sum", "common", "contracts"} {
			if out, err := exec.Command("cp", "-r", filepath.Join(repo, f), filepath.Join(dir, f)).CombinedOutput(); err != nil {
				panic(chainkit.HarnessError{Msg: "copy: " + string(out)})
			}
		}
		vf := filepath.Join(dir, "common", "version.go")
		b, err := os.ReadFile(vf)
		if err != nil {
			panic(chainkit.HarnessError{Msg: err.Error()})
		}
		var minor int
		for _, line := range strings.Split(string(b), "\n") {
			if _, err := fmt.Sscanf(strings.TrimSpace(line), "minor = %d", &minor); err == nil {
				break
			}
		}
		nb := strings.Replace(string(b), fmt.Sprintf("minor = %d", minor), fmt.Sprintf("minor = %d", minor+1), 1)
		if nb == string(b) {
			panic(chainkit.HarnessError{Msg: "cannot bump the version constant"})
		}
		if err := os.WriteFile(vf, []byte(nb), 0o644); err != nil {
			panic(chainkit.HarnessError{Msg: err.Error()})
		}
		bumpDir = dir
	})
	return bumpDir
}

func removeBumped() {
	if bumpDir != "" {
		os.RemoveAll(bumpDir)
	}
}

func bumped(name string) *chainkit.Compiled {
	return chainkit.CompileDir(filepath.Join(bumpedRepo(), "contracts", name), "")
}

func curVersion() int64 { return repoVersion() }

// updateArgs builds the arguments of <contract>.update.
func updateArgs(name string, cc *chainkit.Compiled, data any) []any {
	if name == "nns" {
		return []any{cc.NEFBytes, string(cc.ManBytes), data}
	}
	return []any{cc.NEFBytes, cc.ManBytes, data}
}

// TestC16Gate: who may update.
func TestC16Gate(t *testing.T) {
	theT = t
	defer removeBumped()
	col := ev.New("C16", "gate",
		"complete enumeration: committees of 1, 3 and 7 keys x all 11 contracts of the working tree x signer classes {nobody, a stranger, one committee member, the Alphabet 2n/3+1 multisignature, the committee majority n/2+1} (for NeoFS/Processing: the NeoFSAlphabet role is designated to 4 keys different from the chain committee and the classes are {chain committee majority, one role key, role 2n/3+1, role majority}); the new executable is the same source with the version constant raised, so only the witness decides; refusal => full snapshot of all contracts unchanged; success => new executable installed, version()+1000, a second update to the same version refused; for NeoFS/Processing additionally a rotation of the role (4 old keys -> 4 new keys) followed 0 or 1 blocks later by an update from the majority of the dismissed keys (refused) and of the new keys (accepted)",
		"the same sources compiled with a raised version constant stand for 'a newer release'")
	defer func() { col.Flush(true) }()
	nshards, shard := envInt("VERIF_NSHARDS", 1), envInt("VERIF_SHARD_INDEX", 0)
	idx := 0
	for _, n := range []int{1, 3, 7} {
		for _, name := range allContracts {
			idx++
			if idx%nshards != shard {
				continue
			}
			h := ev.NewHistory()
			h.Op("n=%d contract=%s", n, name)
			ok := runCase(t, col, h, func() {
				c := chainkit.NewChain(theT, n, chainkit.Options{})
				defer c.Close()
				var target util.Uint160
				type class struct {
					name    string
					signers []neotest.Signer
					allowed bool
				}
				var classes []class
				stranger := chainkit.NamedUser("c16-stranger")
				if name == "neofs" || name == "processing" {
					// on the 3-key chain the NeoFS contract runs without Notary and stores four Alphabet keys of its own (kept
					// up to date by alphabetUpdate votes): they collect votes, they do not gate the update - the role does
					var sk []*keys.PrivateKey
					var stored [][]byte
					for i := 0; i < 4; i++ {
						k := chainkit.DetKey(fmt.Sprintf("c16-stored-%d", i))
						sk = append(sk, k)
						stored = append(stored, k.PublicKey().Bytes())
					}
					var w *mainWorld
					if n == 3 {
						w = newMainWorldStored(c, false, true, stored)
					} else {
						w = newMainWorldOn(c, false)
					}
					target = w.neofs
					if name == "processing" {
						target = w.proc
					}
					var rk []*keys.PrivateKey
					var pubs keys.PublicKeys
					for i := 0; i < 4; i++ {
						k := chainkit.DetKey(fmt.Sprintf("c16-role-%d", i))
						rk = append(rk, k)
						pubs = append(pubs, k.PublicKey())
					}
					c.DesignateAlphabet(pubs)
					classes = []class{
						{"nobody", nil, false},
						{"a stranger", []neotest.Signer{stranger}, false},
						{"the chain committee majority", []neotest.Signer{c.Committee}, false},
						{"one key of the NeoFSAlphabet role", []neotest.Signer{neotest.NewSingleSigner(walletOf(rk[0]))}, false},
						{"2-of-4 multisignature of the role keys", []neotest.Signer{chainkit.Multisig(2, rk)}, false},
					}
					if n == 3 {
						classes = append(classes, class{"majority (3-of-4) of the Alphabet keys stored in the NeoFS contract (Notary disabled), which are not the role", []neotest.Signer{chainkit.Multisig(3, sk)}, false},
							class{"all four stored Alphabet keys", []neotest.Signer{chainkit.Multisig(4, sk)}, false})
					}
					classes = append(classes, class{"majority (3-of-4) of the NeoFSAlphabet role", []neotest.Signer{chainkit.Multisig(3, rk)}, true})
					_ = sk
				} else {
					fs := chainkit.NewFS(c, chainkit.FSOptions{Contracts: []string{"netmap", "balance", "neofsid", "container", "proxy", "audit", "reputation", "alphabet"},
						NetmapConfig: []any{"ContainerFee", int64(0), "ContainerAliasFee", int64(0)}})
					key := name
					if name == "alphabet" {
						key = "alphabet0"
					}
					target = fs.H[key]
					same := c.Committee.ScriptHash() == c.Alphabet.ScriptHash()
					classes = []class{
						{"nobody", nil, false},
						{"a stranger", []neotest.Signer{stranger}, false},
						{"one committee member", []neotest.Signer{c.Member(0)}, false},
						{"the Alphabet 2n/3+1 multisignature", []neotest.Signer{c.Alphabet}, same},
						{"the committee majority", []neotest.Signer{c.Committee}, true},
					}
				}
				nv := bumped(name)
				if name == "alphabet" {
					nv = chainkit.CompileDir(filepath.Join(bumpedRepo(), "contracts", "alphabet"), "alphabet0")
				}
				updated := false
				for _, cl := range classes {
					pre := c.Snapshot()
					o := c.Invoke(cl.signers, target, "update", updateArgs(name, nv, nil)...)
					h.Op("update by %s -> %s", cl.name, o)
					want := cl.allowed && !updated
					if want != o.Halt {
						fail("C16: update of %s (n=%d) by %s: expected success=%v, got %s", name, n, cl.name, want, o)
					}
					if !o.Halt {
						if d := chainkit.Diff(pre, c.Snapshot()); len(d) != 0 {
							fail("C16: refused update of %s by %s changed state: %v", name, cl.name, d)
						}
						continue
					}
					updated = true
					cs := c.BC.GetContractState(target)
					if cs.NEF.Checksum != nv.NEF.Checksum {
						fail("C16: successful update of %s did not install the new executable", name)
					}
					if v, ok := c.Call(nil, target, "version").Int(); !ok || v != curVersion()+1000 {
						fail("C16: version() of %s after the update is %d", name, v)
					}
					// the same version again: refused whoever asks
					pre = c.Snapshot()
					o = c.Invoke(cl.signers, target, "update", updateArgs(name, nv, nil)...)
					if o.Halt {
						fail("C16: update of %s to the version it already has succeeded", name)
					}
					if d := chainkit.Diff(pre, c.Snapshot()); len(d) != 0 {
						fail("C16: refused re-update of %s changed state: %v", name, d)
					}
				}
				if !updated {
					fail("C16: no signer class could update %s", name)
				}
				h.NonTrivial()
			})
			if !ok {
				return
			}
		}
	}
	// rotation of the NeoFSAlphabet role: the role list that decides is the one in force in the block of the invocation
	for _, name := range []string{"neofs", "processing"} {
		for _, variant := range []string{"dismissed-keys-first", "new-keys-first"} {
			for _, delay := range []int{0, 1} {
				idx++
				if idx%nshards != shard {
					continue
				}
				h := ev.NewHistory()
				h.Op("rotation contract=%s variant=%s blocks between re-designation and update=%d", name, variant, delay)
				ok := runCase(t, col, h, func() {
					c := chainkit.NewChain(theT, 1, chainkit.Options{})
					defer c.Close()
					w := newMainWorldOn(c, false)
					target := w.neofs
					if name == "processing" {
						target = w.proc
					}
					mk := func(label string) ([]*keys.PrivateKey, keys.PublicKeys) {
						var rk []*keys.PrivateKey
						var pubs keys.PublicKeys
						for i := 0; i < 4; i++ {
							k := chainkit.DetKey(fmt.Sprintf("c16-%s-role-%d", label, i))
							rk = append(rk, k)
							pubs = append(pubs, k.PublicKey())
						}
						return rk, pubs
					}
					oldKeys, oldPubs := mk("old")
					newKeys, newPubs := mk("new")
					c.DesignateAlphabet(oldPubs)
					c.Skip(3)
					c.DesignateAlphabet(newPubs)
					c.Skip(delay)
					nv := bumped(name)
					try := func(who string, ks []*keys.PrivateKey, allowed bool) {
						pre := c.Snapshot()
						o := c.Invoke([]neotest.Signer{chainkit.Multisig(3, ks)}, target, "update", updateArgs(name, nv, nil)...)
						h.Op("update by the majority of %s, %d block(s) after the re-designation -> %s", who, int(c.Height())-0, o)
						if allowed != o.Halt {
							fail("C16: update of %s by the majority of %s right after the role was re-designated: expected success=%v, got %s", name, who, allowed, o)
						}
						if !o.Halt {
							if d := chainkit.Diff(pre, c.Snapshot()); len(d) != 0 {
								fail("C16: refused update of %s by %s changed state: %v", name, who, d)
							}
						}
					}
					if variant == "dismissed-keys-first" {
						try("the dismissed role keys", oldKeys, false)
						try("the new role keys", newKeys, true)
					} else {
						try("the new role keys", newKeys, true)
					}
					if v, ok := c.Call(nil, target, "version").Int(); !ok || v != curVersion()+1000 {
						fail("C16: version() of %s after the update is %d", name, v)
					}
					h.Mark("role-rotation")
					h.NonTrivial()
				})
				if !ok {
					return
				}
			}
		}
	}
	col.SetExhaustive(true)
}

// ---------------------------------------------------------------------------
// stub-upgrade machinery

func leBig(v int64) []byte { return bigint.ToBytes(big.NewInt(v)) }

func ser(it stackitem.Item) []byte {
	b, err := stackitem.Serialize(it)
	if err != nil {
		panic(err)
	}
	return b
}

// installStub deploys a stub under the target's manifest name and fills its storage.
func installStub(c *chainkit.Chain, name string, storage map[string][]byte) util.Uint160 {
	mn := chainkit.ManifestNames[name]
	stub := c.Deploy(chainkit.Probe("stub", mn), nil)
	var kv []any
	flush := func() {
		if len(kv) == 0 {
			return
		}
		if o := c.Invoke(nil, stub, "putMany", kv); !o.Halt {
			panic(chainkit.HarnessError{Msg: "stub putMany: " + o.Fault})
		}
		kv = nil
	}
	keysSorted := make([]string, 0, len(storage))
	for k := range storage {
		keysSorted = append(keysSorted, k)
	}
	sortStrings(keysSorted)
	for _, k := range keysSorted {
		kv = append(kv, []byte(k), storage[k])
		if len(kv) >= 60 {
			flush()
		}
	}
	flush()
	return stub
}

func sortStrings(a []string) {
	for i := 1; i < len(a); i++ {
		for j := i; j > 0 && a[j] < a[j-1]; j-- {
			a[j], a[j-1] = a[j-1], a[j]
		}
	}
}

// upgradeStub makes the stub update itself to the working tree's contract,
// reporting version v as the running one.
func upgradeStub(c *chainkit.Chain, stub util.Uint160, name string, data []any, v int64) *chainkit.Outcome {
	cc := chainkit.CompileDir(filepath.Join(chainkit.RepoDir(), "contracts", name), "")
	if data == nil {
		data = []any{}
	}
	return c.Invoke(c.Both(), stub, "upgrade", cc.NEFBytes, cc.ManBytes, data, v)
}

// netmapSeed is a minimal sound Netmap storage of any supported band.
func netmapSeed(v int64, bal, cnt util.Uint160) map[string][]byte {
	s := map[string][]byte{
		"snapshotCount": leBig(10), "snapshotEpoch": leBig(0), "snapshotBlock": leBig(0), "snapshotCurrent": leBig(0),
	}
	for i := 0; i < 10; i++ {
		s["snapshot_"+string([]byte{byte(i)})] = ser(stackitem.NewArray(nil))
	}
	if v < 19_000 {
		s["balanceScriptHash"] = bal.BytesBE()
		s["containerScriptHash"] = cnt.BytesBE()
	} else {
		s["e\x00"+string(bal.BytesBE())] = []byte{}
		s["e\x01"+string(cnt.BytesBE())] = []byte{}
	}
	return s
}

var c16Versions = []int64{15_002, 15_003, 15_004, 15_005, 15_999, 16_000, 16_001, 16_999, 17_000, 17_001, 17_999, 18_000, 18_001, 18_999, 19_000, 19_001, 19_999, 20_000, 20_001, 0, 1, 1_000_000_000}

func alphabetData(c *chainkit.Chain) []any {
	return []any{false, util.Uint160{1}, util.Uint160{2}, "az"}
}

// TestC16Window: which versions may be updated from.
func TestC16Window(t *testing.T) {
	theT = t
	col := ev.New("C16", "window",
		"complete enumeration: all 11 contracts x running versions {Prev-2..Prev+1, every migration threshold +-1 (16000,17000,18000,19000), V-1, V, V+1, 0, 1, 10^9} reported by a stub that holds a minimal sound storage of that band and updates itself to the contract of the working tree (the version bounds are read from common/version.go of the tree); v<Prev or v>=V => FAULT and unchanged snapshot; otherwise success and version()==V; each case is also run with junk storage for the out-of-window versions ('whatever the storage')")
	defer func() { col.Flush(true) }()
	nshards, shard := envInt("VERIF_NSHARDS", 1), envInt("VERIF_SHARD_INDEX", 0)
	V := curVersion()
	c16Prev := prevVersion()
	versions := append([]int64{}, c16Versions...)
	versions = append(versions, V-1, V, V+1, c16Prev-2, c16Prev-1, c16Prev, c16Prev+1)
	idx := 0
	for _, name := range allContracts {
		for _, v := range versions {
			idx++
			if idx%nshards != shard {
				continue
			}
			h := ev.NewHistory()
			h.Op("contract=%s running version=%d", name, v)
			ok := runCase(t, col, h, func() {
				c := chainkit.NewChain(theT, 1, chainkit.Options{})
				defer c.Close()
				inWindow := v >= c16Prev && v < V
				store := map[string][]byte{}
				a := c.Deploy(chainkit.Probe("stub", "stand-in balance"), nil)
				b := c.Deploy(chainkit.Probe("stub", "stand-in container"), nil)
				if name == "netmap" {
					store = netmapSeed(v, a, b)
				}
				if !inWindow {
					store["junk"] = []byte{1, 2, 3}
					store[string(make([]byte, 20))] = []byte("not an account")
					store[string(make([]byte, 32))] = []byte("not a container")
				}
				stub := installStub(c, name, store)
				var data []any
				if name == "alphabet" {
					data = alphabetData(c)
				}
				pre := c.Snapshot()
				o := upgradeStub(c, stub, name, data, v)
				h.Op("upgrade from %d -> %s", v, o)
				if inWindow != o.Halt {
					fail("C16: update of %s from version %d (supported window [%d,%d)): expected success=%v, got %s", name, v, c16Prev, V, inWindow, o)
				}
				if !o.Halt {
					if d := chainkit.Diff(pre, c.Snapshot()); len(d) != 0 {
						fail("C16: refused update of %s from %d changed state: %v", name, v, d)
					}
					h.Mark("refused")
				} else {
					if got, ok := c.Call(nil, stub, "version").Int(); !ok || got != V {
						fail("C16: version() after the update of %s is %d", name, got)
					}
					h.Mark("accepted")
				}
				h.NonTrivial()
			})
			if !ok {
				return
			}
		}
	}
	col.SetExhaustive(true)
}

var _ = rapid.Check

// ---------------------------------------------------------------------------
// data preservation: live contract vs. stub upgraded from an inverse-migrated copy

type c16Case struct {
	name      string
	c         *chainkit.Chain
	live      util.Uint160
	v         int64
	legacy    map[string][]byte
	leftovers map[string][]byte
	blocked   bool
	data      []any
	// ballotAges: ages (in blocks, as the update will see them: CurrentIndex - ballot height) of the legacy ballots;
	// they are written by placeBallots right before the update so that the age is exact
	ballotAges     []int64
	ballotLeftover bool
}

// ballotWindow is the life time of a ballot in blocks (common/vote.go: a ballot whose last vote is more than 20
// blocks old is dropped by the next vote; up to and including 20 it still collects votes, i.e. it is pending).
const ballotWindow = 20

var (
	pendingAges = []int64{0, 1, 5, ballotWindow - 1, ballotWindow}
	staleAges   = []int64{ballotWindow + 1, ballotWindow + 2, 100}
)

// placeBallots writes the 'ballots' item of the stub so that, in the update transaction sent in the very next block,
// ballot i is exactly ages[i] blocks old. Returns the serialized item.
func placeBallots(c *chainkit.Chain, stub util.Uint160, ages []int64) []byte {
	// this put goes into block Height()+1, the update into Height()+2 and sees CurrentIndex = Height()+1
	at := int64(c.Height()) + 1
	var items []stackitem.Item
	for _, a := range ages {
		items = append(items, ballotItem(at-a))
	}
	val := ser(stackitem.NewArray(items))
	if o := c.Invoke(nil, stub, "putMany", []any{[]byte("ballots"), val}); !o.Halt {
		panic(chainkit.HarnessError{Msg: "stub putMany(ballots): " + o.Fault})
	}
	if int64(c.Height()) != at {
		panic(chainkit.HarnessError{Msg: "placeBallots: unexpected block count"})
	}
	return val
}

func ballotItem(height int64) stackitem.Item {
	return stackitem.NewStruct([]stackitem.Item{
		stackitem.NewByteArray([]byte("some-decision")),
		stackitem.NewArray([]stackitem.Item{stackitem.NewByteArray(chainkit.DetKey("voter").PublicKey().Bytes())}),
		stackitem.Make(height),
	})
}

// legacyFlags adds the non-Notary era keys of versions below 0.17 (the
// 'notary' flag, a ballot list, stale script-hash keys) and predicts what the
// migration must do with them. purges tells whether this contract's migration
// looks at the ballots (Audit's does not).
func legacyFlags(rt *rapid.T, cs *c16Case, stale []string, purges bool) {
	if cs.v >= 17_000 {
		return
	}
	flag := rapid.SampledFrom([]string{"absent", "false", "true", "true"}).Draw(rt, "notaryFlag")
	if flag == "absent" {
		return // already notarised long ago: nothing of that era is left
	}
	if flag == "true" {
		cs.legacy["notary"] = []byte{1}
	} else {
		cs.legacy["notary"] = []byte{0}
	}
	for _, k := range stale {
		cs.legacy[k] = util.Uint160{7, 7, 7}.BytesBE()
	}
	kinds := []string{"absent", "empty", "stale", "fresh"}
	if !purges {
		kinds = []string{"absent"} // this contract never collected votes
	}
	kind := rapid.SampledFrom(kinds).Draw(rt, "ballots")
	switch kind {
	case "empty":
		cs.legacy["ballots"] = ser(stackitem.NewArray(nil))
	case "stale":
		cs.ballotAges = []int64{rapid.SampledFrom(staleAges).Draw(rt, "staleAge")}
	case "fresh":
		// one ballot still inside its window (boundary ages included) next to a dead one, in either order
		cs.ballotAges = []int64{rapid.SampledFrom(pendingAges).Draw(rt, "pendingAge"), rapid.SampledFrom(staleAges).Draw(rt, "staleAge")}
		if rapid.Bool().Draw(rt, "pendingLast") {
			cs.ballotAges[0], cs.ballotAges[1] = cs.ballotAges[1], cs.ballotAges[0]
		}
	}
	if flag == "true" && purges {
		if kind == "fresh" {
			cs.blocked = true
		}
		// otherwise the ballot list is purged together with the flag
	} else if kind != "absent" {
		cs.ballotLeftover = true
		if kind == "empty" {
			cs.leftovers["ballots"] = cs.legacy["ballots"]
		}
	}
}

// run installs the legacy storage, upgrades and compares raw storage with the live contract.
func (cs *c16Case) run(h *ev.History) (util.Uint160, bool) {
	c := cs.c
	stub := installStub(c, cs.name, cs.legacy)
	if len(cs.ballotAges) > 0 {
		cs.legacy["ballots"] = placeBallots(c, stub, cs.ballotAges)
		if cs.ballotLeftover {
			cs.leftovers["ballots"] = cs.legacy["ballots"]
		}
		h.Mark(fmt.Sprintf("ballot-ages:%v", cs.ballotAges))
	}
	pre := c.Snapshot()
	o := upgradeStub(c, stub, cs.name, cs.data, cs.v)
	h.Op("%s: upgrade from version %d with %d legacy keys, ballot ages %v (blocked by pending vote: %v) -> %s", cs.name, cs.v, len(cs.legacy), cs.ballotAges, cs.blocked, o)
	if cs.blocked {
		if o.Halt {
			fail("C16: %s was updated from %d although a pending vote exists", cs.name, cs.v)
		}
		if d := chainkit.Diff(pre, c.Snapshot()); len(d) != 0 {
			fail("C16: refused update changed state: %v", d)
		}
		h.Mark("blocked-by-pending-vote")
		return stub, false
	}
	if !o.Halt {
		fail("C16: update of %s from supported version %d with a sound legacy storage failed: %s", cs.name, cs.v, o.Fault)
	}
	cs.compareRaw(stub, "right after the update")
	return stub, true
}

func (cs *c16Case) compareRaw(stub util.Uint160, when string) {
	want := map[string][]byte{}
	for k, v := range cs.c.Storage(cs.live) {
		want[k] = v
	}
	for k, v := range cs.leftovers {
		want[k] = v
	}
	got := cs.c.Storage(stub)
	for k, v := range want {
		g, ok := got[k]
		if !ok {
			fail("C16: %s upgraded from %d lost storage item %x (%q) %s", cs.name, cs.v, k, k, when)
		}
		if string(g) != string(v) {
			fail("C16: %s upgraded from %d holds %x under %x (%q), the live contract holds %x (%s)", cs.name, cs.v, g, k, k, v, when)
		}
	}
	for k := range got {
		if _, ok := want[k]; !ok {
			fail("C16: %s upgraded from %d holds an unexpected storage item %x (%q) %s", cs.name, cs.v, k, k, when)
		}
	}
}

// sameAPI calls a read method on the live contract and the upgraded stub and compares outcomes.
func (cs *c16Case) sameAPI(stub util.Uint160, method string, args ...any) {
	a := cs.c.Call(nil, cs.live, method, args...)
	b := cs.c.Call(nil, stub, method, args...)
	if a.Halt != b.Halt || (a.Halt && chainkit.ItemsString(a.Stack) != chainkit.ItemsString(b.Stack)) {
		fail("C16: %s.%s%v answers %s after the upgrade from %d, the live contract answers %s", cs.name, method, shortArgs(args), b, cs.v, a)
	}
}

var c16Bands = []int64{15_004, 15_999, 16_000, 16_999, 17_000, 17_999, 18_000, 18_999, 19_000, 19_999}

func TestC16Data(t *testing.T) {
	theT = t
	col := ev.New("C16", "data",
		"rapid: a live contract of the working tree (Balance, Container, Netmap, NNS, NeoFSID, Audit, Reputation, Alphabet) is driven through a generated history; its storage is copied into a stub and inverse-migrated to the layout of a drawn supported version (un-prefixed balance accounts and container keys, pre-0.16 netmap snapshot/candidate structures, pre-0.19 subscriber keys, pre-0.18 owned TLDs, pre-0.17 notary flag with absent/empty/stale/fresh ballots and stale script-hash keys); the stub updates itself to the working tree's contract; oracle: a fresh pending vote (flag true) blocks the update and nothing changes, otherwise the raw storage equals the live contract's exactly (no leftovers of the old layout) and every read method answers identically, also after a further epoch tick / put executed on both; for the Alphabet contract (whose pre-0.17 non-Notary update moves funds by its documented rule) the exact GAS deltas of Proxy, every Inner Ring and storage node, their Notary deposits and the contract itself, and refusal when there is nothing to distribute; non-trivial = every case that reaches the comparison with a legacy band below 0.20",
		"legacy storages are well formed for their version band (built by inverse migration of a storage produced by the current contract)", "pre-0.16 network maps hold only Online nodes (the old format had no state)")
	runRapid(t, col, func(rt *rapid.T, h *ev.History) {
		name := rapid.SampledFrom([]string{"balance", "balance", "container", "container", "netmap", "netmap", "nns", "nns", "neofsid", "audit", "reputation", "alphabet", "alphabet"}).Draw(rt, "contract")
		v := rapid.SampledFrom(c16Bands).Draw(rt, "version")
		switch name {
		case "balance":
			c16Balance(rt, h, v)
		case "container":
			c16Container(rt, h, v)
		case "netmap":
			c16Netmap(rt, h, v)
		case "nns":
			c16NNS(rt, h, v)
		case "alphabet":
			c16Alphabet(rt, h, v)
		default:
			c16Simple(rt, h, name, v)
		}
		h.NonTrivial()
	})
}

func c16Balance(rt *rapid.T, h *ev.History, v int64) {
	w := newBalWorld(1, h)
	defer w.close()
	alpha := []neotest.Signer{w.c.Alphabet}
	var accs [][]byte
	for i, u := range w.users {
		accs = append(accs, u.ScriptHash().BytesBE())
		w.c.Invoke(alpha, w.bal, "mint", u.ScriptHash(), int64(100*(i+1)), []byte("m"))
	}
	// accounts whose address starts with a byte the contracts use as a storage prefix ('a' = the
	// new account prefix itself): prefix-sensitive migrations must not treat them specially
	for _, first := range []byte{'a', 'a', 'x', 'o'} {
		if rapid.Bool().Draw(rt, "prefixLikeAccount") {
			var u util.Uint160
			copy(u[:], []byte(fmt.Sprintf("%c-prefix-like-%06d", first, len(accs))))
			accs = append(accs, u.BytesBE())
			w.c.Invoke(alpha, w.bal, "mint", u, int64(77), []byte("p"))
			h.Mark("account-starting-with-prefix-byte")
		}
	}
	steps := rapid.IntRange(0, 8).Draw(rt, "steps")
	for s := 0; s < steps; s++ {
		from := rapid.SampledFrom(accs[:3]).Draw(rt, "from")
		switch rapid.SampledFrom([]string{"lock", "lock", "transferX", "burn", "mint0"}).Draw(rt, "op") {
		case "lock":
			to := w.freshAddr()
			accs = append(accs, to.BytesBE())
			w.c.Invoke(alpha, w.bal, "lock", []byte("d"), from, to, int64(rapid.IntRange(0, 30).Draw(rt, "amt")), int64(rapid.IntRange(1, 5).Draw(rt, "until")))
		case "transferX":
			w.c.Invoke(alpha, w.bal, "transferX", from, rapid.SampledFrom(accs).Draw(rt, "to"), int64(rapid.IntRange(0, 40).Draw(rt, "amt")), []byte("x"))
		case "burn":
			w.c.Invoke(alpha, w.bal, "burn", from, int64(rapid.IntRange(0, 20).Draw(rt, "amt")), []byte("b"))
		case "mint0":
			e := chainkit.NamedUser(fmt.Sprintf("zero-%d", s)).ScriptHash()
			accs = append(accs, e.BytesBE())
			w.c.Invoke(alpha, w.bal, "mint", e, int64(0), []byte("z"))
		}
	}
	cs := &c16Case{name: "balance", c: w.c, live: w.bal, v: v, legacy: map[string][]byte{}, leftovers: map[string][]byte{}}
	for k, val := range w.c.Storage(w.bal) {
		if len(k) == 21 && k[0] == 'a' {
			cs.legacy[k[1:]] = val
		} else {
			cs.legacy[k] = val
		}
	}
	legacyFlags(rt, cs, []string{"netmapScriptHash", "containerScriptHash"}, true)
	stub, ok := cs.run(h)
	if !ok {
		return
	}
	for _, a := range accs {
		cs.sameAPI(stub, "balanceOf", a)
	}
	cs.sameAPI(stub, "totalSupply")
	// behaviour after the upgrade: an epoch tick releases the same locks
	e := int64(rapid.IntRange(0, 6).Draw(rt, "tick"))
	t1 := w.c.Prepare(alpha, w.bal, "newEpoch", e)
	t2 := w.c.Prepare(alpha, stub, "newEpoch", e)
	outs := w.c.InvokeBlock(0, t1, t2)
	if outs[0].Halt != outs[1].Halt {
		fail("C16: newEpoch(%d) after the upgrade: live %s, upgraded %s", e, outs[0], outs[1])
	}
	cs.compareRaw(stub, fmt.Sprintf("after newEpoch(%d)", e))
	h.Mark("balance-band-" + band(v))
}

func band(v int64) string {
	switch {
	case v < 16_000:
		return "0.15"
	case v < 17_000:
		return "0.16"
	case v < 18_000:
		return "0.17"
	case v < 19_000:
		return "0.18"
	}
	return "0.19"
}

func c16Container(rt *rapid.T, h *ev.History, v int64) {
	w := newCntWorld(1, h, 0, 0)
	defer w.close()
	var blobs []*cntBlob
	steps := rapid.IntRange(1, 8).Draw(rt, "steps")
	for s := 0; s < steps; s++ {
		switch rapid.SampledFrom([]string{"put", "put", "put", "eacl", "delete"}).Draw(rt, "op") {
		case "put":
			name := ""
			if rapid.IntRange(0, 2).Draw(rt, "named") == 0 {
				name = fmt.Sprintf("nm%d", s)
			}
			b := w.mkBlob(rapid.IntRange(0, 2).Draw(rt, "owner"), rapid.SampledFrom([]int{0, 3, 200}).Draw(rt, "off"), 500+s, name)
			if want := rapid.SampledFrom([]byte{0, 0, 'x', 'o', 'd', 'm'}).Draw(rt, "cidFirstByte"); want != 0 {
				// a container id that starts with one of the contract's own prefix bytes
				for salt := 100000; salt < 140000; salt++ {
					if c := w.mkBlob(b.owner, 0, salt, name); c.id[0] == want {
						b = c
						h.Mark("cid-starting-with-prefix-byte")
						break
					}
				}
			}
			pub := w.owners[b.owner].Account().PublicKey().Bytes()
			var o *chainkit.Outcome
			if name != "" {
				o = w.c.Invoke(w.alpha, w.cnt, "putNamed", b.value, detBytes("sig", 64), pub, []byte{}, name, "")
			} else {
				o = w.c.Invoke(w.alpha, w.cnt, "put", b.value, detBytes("sig", 64), pub, detBytes("tok", 10), rapid.Bool().Draw(rt, "meta"))
			}
			if o.Halt {
				blobs = append(blobs, b)
			}
		case "eacl":
			if len(blobs) > 0 {
				b := rapid.SampledFrom(blobs).Draw(rt, "blob")
				w.c.Invoke(w.alpha, w.cnt, "setEACL", mkEACL(b.id, 0, s), detBytes("es", 64), detBytes("ep", 33), []byte{})
			}
		case "delete":
			if len(blobs) > 0 {
				b := rapid.SampledFrom(blobs).Draw(rt, "blob")
				w.c.Invoke(w.alpha, w.cnt, "delete", b.id, detBytes("ds", 64), []byte{})
			}
		}
	}
	cs := &c16Case{name: "container", c: w.c, live: w.cnt, v: v, legacy: map[string][]byte{}, leftovers: map[string][]byte{}}
	for k, val := range w.c.Storage(w.cnt) {
		switch {
		case len(k) == 33 && k[0] == 'x':
			cs.legacy[k[1:]] = val
		case len(k) == 58 && k[0] == 'o':
			cs.legacy[k[1:]] = val
		default:
			cs.legacy[k] = val
		}
	}
	legacyFlags(rt, cs, nil, true)
	stub, ok := cs.run(h)
	if !ok {
		return
	}
	cs.sameAPI(stub, "count")
	cs.sameAPI(stub, "list", []byte{})
	cs.sameAPI(stub, "containersOf", nil)
	for i := range w.owners {
		cs.sameAPI(stub, "list", ownerID(w.owners[i].ScriptHash()))
		cs.sameAPI(stub, "containersOf", ownerID(w.owners[i].ScriptHash()))
	}
	for _, b := range blobs {
		for _, m := range []string{"get", "owner", "eACL", "alias"} {
			cs.sameAPI(stub, m, b.id)
		}
	}
	// a put works after the upgrade and lands in both registries alike
	nb := w.mkBlob(1, 0, 999, "")
	pub := w.owners[1].Account().PublicKey().Bytes()
	for _, target := range []util.Uint160{w.cnt, stub} {
		if o := w.c.Invoke(w.alpha, target, "put", nb.value, detBytes("sig", 64), pub, detBytes("tok", 10)); !o.Halt {
			fail("C16: put after the upgrade failed on %s: %s", target.StringLE()[:6], o)
		}
	}
	cs.compareRaw(stub, "after a further put")
	h.Mark("container-band-" + band(v))
}

func c16Netmap(rt *rapid.T, h *ev.History, v int64) {
	w := newNmWorld(1, h, "netmap", "balance")
	defer w.close()
	probe := w.c.Deploy(chainkit.Probe("subscriber", "verif subscriber 0"), nil)
	if o := w.c.Invoke(w.alpha, w.nm, "subscribeForNewEpoch", probe); !o.Halt {
		fail("C16 harness: subscribe: %s", o)
	}
	epoch := int64(0)
	steps := rapid.IntRange(1, 14).Draw(rt, "steps")
	marker := 0
	for s := 0; s < steps; s++ {
		switch rapid.SampledFrom([]string{"add", "add", "tick", "tick", "tick", "remove", "config", "count", "deep-history"}).Draw(rt, "op") {
		case "deep-history":
			// a history deeper than the default of 10 maps, completely filled (every slot of the ring holds a map)
			cnt := int64(rapid.IntRange(11, 13).Draw(rt, "deepCount"))
			w.c.Invoke(w.alpha, w.nm, "updateSnapshotCount", cnt)
			marker++
			w.c.Invoke(w.alpha, w.nm, "addPeerIR", legacyInfo(w.pub(rapid.IntRange(0, 3).Draw(rt, "node")), marker))
			for i := int64(0); i < cnt+1; i++ {
				epoch++
				w.c.Invoke(w.alpha, w.nm, "newEpoch", epoch)
			}
			h.Mark("netmap-history-deeper-than-default")
		case "add":
			marker++
			w.c.Invoke(w.alpha, w.nm, "addPeerIR", legacyInfo(w.pub(rapid.IntRange(0, 3).Draw(rt, "node")), marker))
		case "remove":
			w.c.Invoke(w.alpha, w.nm, "updateStateIR", 2, w.pub(rapid.IntRange(0, 3).Draw(rt, "node")))
		case "tick":
			epoch++
			w.c.Invoke(w.alpha, w.nm, "newEpoch", epoch)
		case "config":
			w.c.Invoke(w.alpha, w.nm, "setConfig", []byte("id"), []byte(fmt.Sprintf("cfg%d", rapid.IntRange(0, 2).Draw(rt, "key"))), []byte(fmt.Sprintf("val%d", s)))
		case "count":
			w.c.Invoke(w.alpha, w.nm, "updateSnapshotCount", int64(rapid.IntRange(1, 12).Draw(rt, "count")))
		}
	}
	if v >= 16_000 && rapid.Bool().Draw(rt, "maintenance") {
		w.c.Invoke(w.alpha, w.nm, "updateStateIR", 3, w.pub(0))
		epoch++
		w.c.Invoke(w.alpha, w.nm, "newEpoch", epoch)
	}
	cs := &c16Case{name: "netmap", c: w.c, live: w.nm, v: v, legacy: map[string][]byte{}, leftovers: map[string][]byte{}}
	for k, val := range w.c.Storage(w.nm) {
		switch {
		case v < 19_000 && len(k) == 22 && k[0] == 'e':
			if k[1] == 0 {
				cs.legacy["balanceScriptHash"] = []byte(k[2:])
			} else {
				cs.legacy["containerScriptHash"] = []byte(k[2:])
			}
		case v < 16_000 && strings.HasPrefix(k, "snapshot_"):
			it, err := stackitem.Deserialize(val)
			if err != nil {
				fail("C16 harness: %v", err)
			}
			var old []stackitem.Item
			for _, n := range chainkit.ItemArr(it) {
				f := chainkit.ItemArr(n)
				if chainkit.ItemInt(f[1]) != 1 {
					fail("C16 harness: a non-Online node in a pre-0.16 snapshot")
				}
				old = append(old, stackitem.NewStruct([]stackitem.Item{f[0]}))
			}
			cs.legacy[k] = ser(stackitem.NewArray(old))
		case v < 16_000 && strings.HasPrefix(k, "candidate"):
			it, err := stackitem.Deserialize(val)
			if err != nil {
				fail("C16 harness: %v", err)
			}
			f := chainkit.ItemArr(it)
			cs.legacy[k] = ser(stackitem.NewStruct([]stackitem.Item{stackitem.NewStruct([]stackitem.Item{f[0]}), f[1]}))
		default:
			cs.legacy[k] = val
		}
	}
	legacyFlags(rt, cs, []string{"innerring"}, true)
	stub, ok := cs.run(h)
	if !ok {
		return
	}
	for _, m := range []string{"epoch", "netmap", "netmapCandidates", "listConfig", "lastEpochBlock"} {
		cs.sameAPI(stub, m)
	}
	for d := 0; d < 12; d++ {
		cs.sameAPI(stub, "snapshot", d)
	}
	for e := int64(0); e <= epoch+1; e++ {
		cs.sameAPI(stub, "snapshotByEpoch", e)
	}
	for i := 0; i < 3; i++ {
		cs.sameAPI(stub, "config", []byte(fmt.Sprintf("cfg%d", i)))
	}
	// a tick works after the upgrade, reaches the same subscribers and gives the same state
	t1 := w.c.Prepare(w.alpha, w.nm, "newEpoch", epoch+1)
	t2 := w.c.Prepare(w.alpha, stub, "newEpoch", epoch+1)
	w.c.FixedSysFee = 0
	outs := w.c.InvokeBlock(0, t1, t2)
	if !outs[0].Halt || !outs[1].Halt {
		fail("C16: newEpoch after the upgrade from %d: live %s, upgraded %s", v, outs[0], outs[1])
	}
	if len(chainkit.EventsNamed(outs[1].Events, "ProbeEpoch")) != 1 {
		fail("C16: the upgraded Netmap did not call its second subscriber on the tick")
	}
	cs.compareRaw(stub, "after a further tick")
	h.Mark("netmap-band-" + band(v))
}

func c16NNS(rt *rapid.T, h *ev.History, v int64) {
	w := newNnsWorld(1, h)
	defer w.close()
	r := newNnsRun(w, "C16")
	committee := who{signers: w.committee, desc: "committee"}
	r.opRegisterTLD(committee, 1, "com", hundredYearsSec)
	if rapid.Bool().Draw(rt, "org") {
		r.opRegisterTLD(committee, 1, "org", hundredYearsSec)
	}
	var names []string
	steps := rapid.IntRange(1, 10).Draw(rt, "steps")
	for s := 0; s < steps; s++ {
		u := w.users[rapid.IntRange(0, 2).Draw(rt, "user")]
		wh := who{signers: []neotest.Signer{u}, desc: w.names[u.ScriptHash()]}
		switch rapid.SampledFrom([]string{"register", "register", "record", "record", "transfer", "admin"}).Draw(rt, "op") {
		case "register":
			n := fmt.Sprintf("n%d.%s", s, rapid.SampledFrom([]string{"com", "org"}).Draw(rt, "tld"))
			if o := r.invoke(wh, 1, "register", n, u.ScriptHash(), "m@nspcc.io", int64(1), int64(2), int64(100000), int64(3)); o.Halt {
				if b, _ := o.Bool(); b {
					names = append(names, n)
				}
			}
		case "record":
			if len(names) > 0 {
				n := rapid.SampledFrom(names).Draw(rt, "name")
				w.c.Invoke([]neotest.Signer{w.users[0], w.users[1], w.users[2]}, w.nns, "addRecord", rapid.SampledFrom([]string{n, "sub." + n}).Draw(rt, "recName"), recTXT, fmt.Sprintf("txt-%d", s))
			}
		case "transfer":
			if len(names) > 0 {
				w.c.Invoke([]neotest.Signer{w.users[0], w.users[1], w.users[2]}, w.nns, "transfer", u.ScriptHash(), rapid.SampledFrom(names).Draw(rt, "name"), nil)
			}
		case "admin":
			if len(names) > 0 {
				w.c.Invoke([]neotest.Signer{w.users[0], w.users[1], w.users[2]}, w.nns, "setAdmin", rapid.SampledFrom(names).Draw(rt, "name"), u.ScriptHash())
			}
		}
	}
	// records beyond id 15: the limit of 16 values per name and type is younger than the oldest supported release, so an
	// old storage may hold more; they are data like any other and must still be readable after the update
	surplus, nSurplus := "", 0
	if rapid.IntRange(0, 2).Draw(rt, "recordsBeyondTheLimit") == 0 {
		u := w.users[0]
		if o := w.c.Invoke([]neotest.Signer{u}, w.nns, "register", "legacy16.com", u.ScriptHash(), "m@nspcc.io", int64(1), int64(2), int64(100000), int64(3)); o.Halt {
			if b, _ := o.Bool(); b {
				surplus, nSurplus = "legacy16.com", rapid.IntRange(1, 4).Draw(rt, "surplusRecords")
				for i := 0; i < 16; i++ {
					if o := w.c.Invoke([]neotest.Signer{u}, w.nns, "addRecord", surplus, recTXT, fmt.Sprintf("t%d", i)); !o.Halt {
						panic(chainkit.HarnessError{Msg: "c16 nns: filling the record list: " + o.Fault})
					}
				}
			}
		}
	}
	cs := &c16Case{name: "nns", c: w.c, live: w.nns, v: v, legacy: map[string][]byte{}, leftovers: map[string][]byte{}}
	tldOwner := w.c.Committee.ScriptHash().BytesBE()
	if rapid.Bool().Draw(rt, "tldOwnerIsUser") {
		tldOwner = w.users[0].ScriptHash().BytesBE()
	}
	extra := int64(0)
	for k, val := range w.c.Storage(w.nns) {
		cs.legacy[k] = val
		if v < 18_000 && len(k) == 21 && k[0] == 0x21 {
			it, err := stackitem.Deserialize(val)
			if err != nil {
				fail("C16 harness: %v", err)
			}
			f := chainkit.ItemArr(it)
			nm := string(chainkit.ItemBytes(f[1]))
			if !strings.Contains(nm, ".") {
				// before 0.18 a TLD had an owner and was counted among the owner's tokens
				cs.legacy[k] = ser(stackitem.NewStruct([]stackitem.Item{stackitem.NewByteArray(tldOwner), f[1], f[2], f[3]}))
				cs.legacy["\x02"+string(tldOwner)+k[1:]] = []byte(nm)
				extra++
			}
		}
	}
	if extra > 0 {
		bk := "\x01" + string(tldOwner)
		cur := int64(0)
		if b, ok := cs.legacy[bk]; ok {
			cur = bigint.FromBytes(b).Int64()
		}
		cs.legacy[bk] = leBig(cur + extra)
	}
	var surplusItems []stackitem.Item
	if surplus != "" {
		key15 := ""
		for k, val := range w.c.Storage(w.nns) {
			it, err := stackitem.Deserialize(val)
			if err != nil || it.Type() != stackitem.StructT {
				continue
			}
			f := chainkit.ItemArr(it)
			if len(f) == 4 && f[0].Type() == stackitem.ByteArrayT && string(chainkit.ItemBytes(f[0])) == surplus && f[1].Type() == stackitem.IntegerT && chainkit.ItemInt(f[1]) == int64(recTXT) && chainkit.ItemInt(f[3]) == 15 && k[len(k)-1] == 15 {
				key15 = k
			}
		}
		if key15 == "" {
			panic(chainkit.HarnessError{Msg: "c16 nns: record 15 of the filled list not found in storage"})
		}
		for j := 16; j < 16+nSurplus; j++ {
			rec := stackitem.NewStruct([]stackitem.Item{stackitem.NewByteArray([]byte(surplus)), stackitem.Make(int64(recTXT)), stackitem.NewByteArray([]byte(fmt.Sprintf("old-%d", j))), stackitem.Make(int64(j))})
			k := key15[:len(key15)-1] + string([]byte{byte(j)})
			cs.legacy[k] = ser(rec)
			cs.leftovers[k] = cs.legacy[k]
			surplusItems = append(surplusItems, rec)
		}
		h.Mark("nns-records-beyond-id-15")
	}
	stub, ok := cs.run(h)
	if !ok {
		return
	}
	if surplus != "" {
		// the live contract answers with the 16 records it could store itself; the upgraded one must answer with those
		// followed by the old release's further ones, in id order
		for _, q := range []struct {
			method string
			args   []any
			whole  bool
		}{{"getRecords", []any{surplus, recTXT}, false}, {"resolve", []any{surplus, recTXT}, false}, {"getAllRecords", []any{surplus}, true}} {
			a, okA := w.c.Call(nil, w.nns, q.method, q.args...).Array()
			bo := w.c.Call(nil, stub, q.method, q.args...)
			b, okB := bo.Array()
			if !okA {
				panic(chainkit.HarnessError{Msg: "c16 nns: live " + q.method + " failed"})
			}
			var want []string
			for _, it := range a {
				want = append(want, chainkit.ItemString(it))
			}
			for _, it := range surplusItems {
				if q.whole {
					want = append(want, chainkit.ItemString(it))
				} else {
					want = append(want, chainkit.ItemString(chainkit.ItemArr(it)[2]))
				}
			}
			var got []string
			for _, it := range b {
				got = append(got, chainkit.ItemString(it))
			}
			if !okB || strings.Join(got, " ") != strings.Join(want, " ") {
				fail("C16: nns.%s%v answers %s after the upgrade from %d; the old storage held records 0..%d of that name: expected %v", q.method, shortArgs(q.args), bo, v, 15+nSurplus, want)
			}
		}
	}
	cs.sameAPI(stub, "totalSupply")
	cs.sameAPI(stub, "roots")
	cs.sameAPI(stub, "tokens")
	for _, u := range append([]util.Uint160{w.c.Committee.ScriptHash()}, w.users[0].ScriptHash(), w.users[1].ScriptHash(), w.users[2].ScriptHash()) {
		cs.sameAPI(stub, "balanceOf", u)
		cs.sameAPI(stub, "tokensOf", u)
	}
	for _, n := range append([]string{"com", "org"}, names...) {
		cs.sameAPI(stub, "isAvailable", n)
		cs.sameAPI(stub, "ownerOf", n)
		cs.sameAPI(stub, "properties", n)
		cs.sameAPI(stub, "getAllRecords", n)
		cs.sameAPI(stub, "getAllRecords", "sub."+n)
		cs.sameAPI(stub, "resolve", n, recTXT)
		cs.sameAPI(stub, "getRecords", n, recSOA)
	}
	h.Mark("nns-band-" + band(v))
}

// c16Alphabet: an Alphabet contract of a supported version below 0.17 may still carry the non-Notary flag.
// Its update is the one migration that moves funds; the contract documents the rule (switchToNotary):
// 75% of the contract's GAS is distributed - half of that to Proxy, the rest evenly between the Inner
// Ring and the storage nodes of the current network map, each node getting half of its share on its
// account and half (at most 20 GAS) as a Notary deposit; a pending vote blocks the update; without the
// flag (or with flag false) no funds move. Checked: exact amounts, GAS conservation, storage, read API.
func c16Alphabet(rt *rapid.T, h *ev.History, v int64) {
	c := chainkit.NewChain(theT, 1, chainkit.Options{P2PSig: true})
	defer c.Close()
	fs := chainkit.NewFS(c, chainkit.FSOptions{Contracts: []string{"netmap", "proxy", "alphabet"}})
	alpha := []neotest.Signer{c.Alphabet}
	live := fs.H["alphabet0"]
	r := rapid.IntRange(1, 4).Draw(rt, "innerRing")
	k := rapid.IntRange(0, 3).Draw(rt, "storageNodes")
	var irPubs keys.PublicKeys
	var nodes []util.Uint160
	names := map[util.Uint160]string{fs.H["proxy"]: "Proxy"}
	for i := 0; i < r; i++ {
		key := chainkit.DetKey(fmt.Sprintf("c16-alpha-ir-%d", i))
		irPubs = append(irPubs, key.PublicKey())
		nodes = append(nodes, key.PublicKey().GetScriptHash())
		names[key.PublicKey().GetScriptHash()] = fmt.Sprintf("Inner Ring node %d", i)
	}
	c.DesignateAlphabet(irPubs)
	for i := 0; i < k; i++ {
		key := chainkit.DetKey(fmt.Sprintf("c16-alpha-sn-%d", i))
		if o := c.Invoke(alpha, fs.H["netmap"], "addPeerIR", legacyInfo(key.PublicKey().Bytes(), i+1)); !o.Halt {
			panic(chainkit.HarnessError{Msg: "c16 alphabet: addPeerIR: " + o.Fault})
		}
		nodes = append(nodes, key.PublicKey().GetScriptHash())
		names[key.PublicKey().GetScriptHash()] = fmt.Sprintf("storage node %d", i)
	}
	if o := c.Invoke(alpha, fs.H["netmap"], "newEpoch", 1); !o.Halt {
		panic(chainkit.HarnessError{Msg: "c16 alphabet: tick: " + o.Fault})
	}
	cs := &c16Case{name: "alphabet", c: c, live: live, v: v, legacy: map[string][]byte{}, leftovers: map[string][]byte{}}
	for key, val := range c.Storage(live) {
		cs.legacy[key] = val
	}
	flag := "absent"
	if v < 17_000 {
		flag = rapid.SampledFrom([]string{"absent", "false", "true", "true", "true"}).Draw(rt, "notaryFlag")
	}
	ballots := "absent"
	if flag != "absent" {
		cs.legacy["notary"] = []byte{0}
		if flag == "true" {
			cs.legacy["notary"] = []byte{1}
		}
		ballots = rapid.SampledFrom([]string{"absent", "empty", "stale", "fresh"}).Draw(rt, "ballots")
		switch ballots {
		case "empty":
			cs.legacy["ballots"] = ser(stackitem.NewArray(nil))
		case "stale":
			cs.ballotAges = []int64{rapid.SampledFrom(staleAges).Draw(rt, "staleAge")}
		case "fresh":
			cs.ballotAges = []int64{rapid.SampledFrom(pendingAges).Draw(rt, "pendingAge"), rapid.SampledFrom(staleAges).Draw(rt, "staleAge")}
		}
	}
	// an older deployment may have been pointed at another Proxy: the update stores the one it is given
	if flag == "true" && rapid.Bool().Draw(rt, "staleProxyKey") {
		cs.legacy["proxyScriptHash"] = util.Uint160{9, 9}.BytesBE()
	}
	stub := installStub(c, "alphabet", cs.legacy)
	g0 := rapid.SampledFrom([]int64{0, 100 * gasUnit, 77777777777, 5000 * gasUnit, 100000 * gasUnit}).Draw(rt, "contractGAS")
	gas := c.NativeHash(nativenames.Gas)
	if g0 > 0 {
		if o := c.Invoke([]neotest.Signer{c.Validators}, gas, "transfer", c.Validators.ScriptHash(), stub, g0, nil); !o.Halt {
			panic(chainkit.HarnessError{Msg: "c16 alphabet: funding: " + o.Fault})
		}
	}
	names[stub] = "the Alphabet contract"
	notaryH := c.NativeHash(nativenames.Notary)
	names[notaryH] = "the Notary contract"
	watch := append([]util.Uint160{stub, fs.H["proxy"], notaryH}, nodes...)
	passProxy := rapid.Bool().Draw(rt, "proxyAddressGiven")
	if len(cs.ballotAges) > 0 {
		cs.legacy["ballots"] = placeBallots(c, stub, cs.ballotAges)
		h.Mark(fmt.Sprintf("ballot-ages:%v", cs.ballotAges))
	}
	pre := gasLedger(c, watch)
	preSnap := c.Snapshot()
	var proxyArg any = []byte{}
	if passProxy {
		proxyArg = fs.H["proxy"]
	}
	cs.data = []any{false, []byte{}, proxyArg, "az", int64(0), int64(1)}
	o := upgradeStub(c, stub, "alphabet", cs.data, v)
	h.Op("alphabet: upgrade from %d, non-Notary flag %s, ballots %s (ages %v), %d GAS units, %d Inner Ring + %d storage nodes, proxy address given=%v -> %s", v, flag, ballots, cs.ballotAges, g0, r, k, passProxy, o)
	want := map[util.Uint160]int64{}
	refused := false
	if flag == "true" {
		G := g0 * 3 / 4
		switch {
		case ballots == "fresh":
			refused = true
			h.Mark("blocked-by-pending-vote")
		case G == 0:
			refused = true
			h.Mark("alphabet-nothing-to-distribute")
		default:
			toProxy := G / 2
			per := (G - toProxy) / int64(r+k)
			dep := per / 2
			if dep > 20*gasUnit {
				dep = 20 * gasUnit
			}
			want[fs.H["proxy"]] = toProxy
			for _, n := range nodes {
				want[n] = per - dep
			}
			want[notaryH] = dep * int64(r+k)
			want[stub] = -toProxy - per*int64(r+k)
			h.Mark("alphabet-funds-distributed")
		}
	}
	if refused {
		if o.Halt {
			fail("C16: the Alphabet contract was updated from %d in non-Notary mode although %s", v, map[bool]string{true: "a pending vote exists", false: "it has no GAS to distribute"}[ballots == "fresh"])
		}
		if d := chainkit.Diff(preSnap, c.Snapshot()); len(d) != 0 {
			fail("C16: refused update changed state: %v", d)
		}
		return
	}
	if !o.Halt {
		fail("C16: update of the Alphabet contract from supported version %d failed: %s", v, o.Fault)
	}
	expectDeltas("C16", c, pre, want, names, "update of a non-Notary Alphabet contract")
	if flag == "true" {
		dep := want[notaryH] / int64(r+k)
		for _, n := range nodes {
			if b, ok := c.Call(nil, notaryH, "balanceOf", n).Int(); !ok || b != dep {
				fail("C16: Notary deposit of %s is %d after the update, expected %d", names[n], b, dep)
			}
		}
	}
	// storage: that of the live contract (same name, index, netmap, proxy), plus what the rule leaves behind
	if ballots != "absent" && !(flag == "true") {
		cs.leftovers["ballots"] = cs.legacy["ballots"]
	}
	cs.compareRaw(stub, "right after the update")
	for _, m := range []string{"name", "version"} {
		cs.sameAPI(stub, m)
	}
	if g, ok := c.Call(nil, stub, "gas").Int(); !ok || g != c.GAS(stub) {
		fail("C16: gas() of the updated Alphabet contract = %d, its balance is %d", g, c.GAS(stub))
	}
	h.Mark("alphabet-band-" + band(v))
}

func c16Simple(rt *rapid.T, h *ev.History, name string, v int64) {
	w := newNmWorld(1, h, name)
	defer w.close()
	live := w.fs.H[name]
	var reads [][]any
	switch name {
	case "neofsid":
		for i := 0; i < 3; i++ {
			owner := ownerID(w.nodes[i].ScriptHash())
			w.c.Invoke(w.alpha, live, "addKey", owner, []any{w.pub(i), w.pub(i + 1)})
			reads = append(reads, []any{"key", owner})
		}
	case "audit":
		ir := chainkit.DetKey("ir-0")
		w.c.DesignateAlphabet(keys.PublicKeys{ir.PublicKey()})
		for i := 0; i < rapid.IntRange(1, 4).Draw(rt, "results"); i++ {
			w.c.Invoke([]neotest.Signer{neotest.NewSingleSigner(walletOf(ir))}, live, "put", auditBlob(0, int64(i+1), detBytes(fmt.Sprintf("cid-%d", i), 32), ir.PublicKey().Bytes(), i))
			reads = append(reads, []any{"listByEpoch", int64(i + 1)})
		}
		reads = append(reads, []any{"list"})
	case "reputation":
		for i := 0; i < rapid.IntRange(1, 4).Draw(rt, "puts"); i++ {
			w.c.Invoke(w.alpha, live, "put", int64(i+1), w.pub(i%3), []byte(fmt.Sprintf("trust-%d", i)))
			reads = append(reads, []any{"get", int64(i + 1), w.pub(i % 3)}, []any{"listByEpoch", int64(i + 1)})
		}
	}
	cs := &c16Case{name: name, c: w.c, live: live, v: v, legacy: map[string][]byte{}, leftovers: map[string][]byte{}}
	for k, val := range w.c.Storage(live) {
		cs.legacy[k] = val
	}
	switch name {
	case "neofsid":
		if v < 19_000 {
			cs.legacy["netmapScriptHash"] = util.Uint160{5}.BytesBE()
		}
		legacyFlags(rt, cs, []string{"containerScriptHash"}, true)
	case "audit":
		legacyFlags(rt, cs, []string{"netmapScriptHash"}, false)
	case "reputation":
		legacyFlags(rt, cs, nil, true)
	}
	stub, ok := cs.run(h)
	if !ok {
		return
	}
	for _, rd := range reads {
		cs.sameAPI(stub, rd[0].(string), rd[1:]...)
	}
	h.Mark(name + "-band-" + band(v))
}
