package props

import (
	"fmt"
	"sort"
	"testing"

	"github.com/nspcc-dev/neo-go/pkg/neotest"
	"pgregory.net/rapid"

	"verif/harness/chainkit"
	"verif/harness/ev"
)

// candModel is the reference model of C07: two candidate lists keyed by public key.
type candModel struct {
	legacy map[string]*legacyCand // key bytes -> blob, state
	node2  map[string]*node2Cand  // key bytes -> marker, state
}

type legacyCand struct {
	blob  []byte
	state int
}

type node2Cand struct {
	marker int
	state  int
}

func newCandModel() *candModel {
	return &candModel{legacy: map[string]*legacyCand{}, node2: map[string]*node2Cand{}}
}

func (m *candModel) legacyStrings() []string {
	var res []string
	for _, c := range m.legacy {
		res = append(res, legacyNodeString(c.blob, c.state))
	}
	sort.Strings(res)
	return res
}

func (m *candModel) node2Strings() []string {
	var res []string
	for k, c := range m.node2 {
		res = append(res, chainkit.ItemString(node2Item([]byte(k), c.marker, c.state)))
	}
	sort.Strings(res)
	return res
}

// c07World drives candidate operations and compares with the model.
type c07World struct {
	*nmWorld
	m *candModel
}

// candOp is one generated operation.
type candOp struct {
	method string // addPeer addPeerIR addNode updateState updateStateIR deleteNode
	key    int    // index into nodes, or -1 for a malformed key
	state  int
	marker int
	node   bool // node witness present
	alpha  bool // Alphabet witness present
	other  bool // another node's witness present
	major  bool // the committee majority n/2+1 signs (not the Alphabet 2n/3+1; differs for n >= 3)
}

func (op candOp) String() string {
	return fmt.Sprintf("%s(key=%d,state=%d,marker=%d) node=%v alphabet=%v other=%v committee-majority=%v", op.method, op.key, op.state, op.marker, op.node, op.alpha, op.other, op.major)
}

// apply executes op against the contract and the model.
func (w *c07World) apply(op candOp) {
	var key []byte
	var signers []neotest.Signer
	if op.key >= 0 {
		key = w.pub(op.key)
		if op.node {
			signers = append(signers, w.nodes[op.key])
		}
	} else {
		key = w.pub(0)[:32] // malformed: 32 bytes
	}
	if op.other {
		signers = append(signers, w.nodes[4])
	}
	if op.alpha {
		signers = append(signers, w.c.Alphabet)
	}
	if op.major {
		if w.c.Committee.ScriptHash() == w.c.Alphabet.ScriptHash() {
			panic(chainkit.HarnessError{Msg: "c07: the majority class needs a committee where it differs from the Alphabet"})
		}
		signers = append(signers, w.c.Committee)
	}
	wellFormed := op.key >= 0
	var o *chainkit.Outcome
	var expectOK bool
	var mutate func()
	var wantEvent string
	unknownOfflineAmbiguous := false
	m := w.m
	_, inL := m.legacy[string(key)]
	_, inS := m.node2[string(key)]
	updateRule := func(needNode bool) {
		witness := op.alpha && (!needNode || op.node)
		switch op.state {
		case 1, 3:
			expectOK = witness && wellFormed && (inL || inS)
			mutate = func() {
				if c, ok := m.legacy[string(key)]; ok {
					c.state = op.state
				}
				if c, ok := m.node2[string(key)]; ok {
					c.state = op.state
				}
			}
			wantEvent = "UpdateStateSuccess"
		case 2:
			if witness && (wellFormed || !needNode) && !(inL || inS) {
				unknownOfflineAmbiguous = true
			}
			expectOK = witness && wellFormed && (inL || inS)
			mutate = func() {
				delete(m.legacy, string(key))
				delete(m.node2, string(key))
			}
			wantEvent = "UpdateStateSuccess"
		default:
			expectOK = false
		}
	}
	switch op.method {
	case "addPeer", "addPeerIR":
		blob := legacyInfo(key, op.marker)
		if !wellFormed {
			blob = blob[:20] // too short to hold a key
		}
		o = w.c.Invoke(signers, w.nm, op.method, blob)
		need := op.alpha
		if op.method == "addPeer" {
			need = need && op.node
		}
		expectOK = need && wellFormed
		mutate = func() { m.legacy[string(key)] = &legacyCand{blob: blob, state: 1} }
		wantEvent = "AddPeerSuccess"
	case "addNode":
		o = w.c.Invoke(signers, w.nm, "addNode", node2Item(key, op.marker, op.state))
		expectOK = op.alpha && op.node && wellFormed && op.state == 1
		mutate = func() { m.node2[string(key)] = &node2Cand{marker: op.marker, state: 1} }
		wantEvent = "AddNode"
	case "updateState":
		o = w.c.Invoke(signers, w.nm, "updateState", op.state, key)
		updateRule(true)
	case "updateStateIR":
		o = w.c.Invoke(signers, w.nm, "updateStateIR", op.state, key)
		updateRule(false)
	case "deleteNode":
		o = w.c.Invoke(signers, w.nm, "deleteNode", key)
		op.state = 2
		updateRule(false)
	}
	w.h.Op("%s -> %s", op, o)
	if unknownOfflineAmbiguous {
		// The statement says both "Offline removes it" and "updating an unknown
		// candidate fails without effect"; for Offline of an unknown key either
		// outcome is accepted as long as nothing changes.
		w.h.Mark("ambiguous:offline-of-unknown-candidate")
	} else if expectOK != o.Halt {
		fail("C07: %s: expected success=%v, got %s", op, expectOK, o)
	}
	if expectOK && o.Halt {
		mutate()
		evs := 0
		for _, e := range o.Events {
			if e.ScriptHash == w.nm {
				evs++
				if e.Name != wantEvent {
					fail("C07: %s emitted %s, expected one %s", op, e.Name, wantEvent)
				}
				arr := chainkit.ItemArr(e.Item)
				if string(chainkit.ItemBytes(arr[0])) != string(key) {
					fail("C07: %s notification names key %x, expected %x", wantEvent, chainkit.ItemBytes(arr[0]), key)
				}
				if wantEvent == "UpdateStateSuccess" && chainkit.ItemInt(arr[1]) != int64(op.state) {
					fail("C07: UpdateStateSuccess carries state %d, expected %d", chainkit.ItemInt(arr[1]), op.state)
				}
			}
		}
		if evs != 1 {
			fail("C07: %s emitted %d notifications, expected exactly one %s", op, evs, wantEvent)
		}
		w.h.Mark("ok:" + op.method)
	} else if o.Halt && !unknownOfflineAmbiguous {
		fail("C07: %s succeeded unexpectedly", op)
	} else {
		w.h.Mark("refused")
	}
	w.compare(op.String())
}

func (w *c07World) compare(what string) {
	w.expectList("C07", "netmapCandidates after "+what, w.call("netmapCandidates"), orEmpty(w.m.legacyStrings()))
	w.expectList("C07", "listCandidates after "+what, w.call("listCandidates"), orEmpty(w.m.node2Strings()))
}

func orEmpty(a []string) []string {
	if a == nil {
		return []string{}
	}
	return a
}

func TestC07Stateful(t *testing.T) {
	theT = t
	col := ev.New("C07", "stateful",
		"rapid state machine over addPeer/addPeerIR/addNode/updateState/updateStateIR/deleteNode on a pool of 3 node keys plus a malformed key, state values {0,1,2,3,4,42,-1}, every subset of {node witness, Alphabet witness, another node's witness} and, on the 3-key committee, node + committee majority (n/2+1) in place of the Alphabet; netmapCandidates/listCandidates and notifications compared with the two-list model after every step; non-trivial = a key was present in both lists at some point and was then updated or removed",
		"Offline/deleteNode of a key in neither list may HALT or FAULT (statement ambiguous) but must change nothing")
	runRapid(t, col, func(rt *rapid.T, h *ev.History) {
		n := rapid.SampledFrom([]int{1, 1, 3}).Draw(rt, "n")
		drawValidators(rt, h, n)
		w := &c07World{nmWorld: newNmWorld(n, h), m: newCandModel()}
		defer w.close()
		steps := rapid.IntRange(1, 30).Draw(rt, "steps")
		both := false
		for i := 0; i < steps; i++ {
			op := candOp{
				method: rapid.SampledFrom([]string{"addPeer", "addPeerIR", "addNode", "addNode", "updateState", "updateStateIR", "deleteNode"}).Draw(rt, "method"),
				key:    rapid.SampledFrom([]int{0, 0, 1, 1, 2, -1}).Draw(rt, "key"),
				state:  rapid.SampledFrom([]int{1, 1, 2, 3, 3, 0, 4, 42, -1}).Draw(rt, "state"),
				marker: rapid.IntRange(1, 9).Draw(rt, "marker"),
			}
			// mostly fully witnessed, sometimes a deficient signer set
			switch rapid.IntRange(0, 9).Draw(rt, "witnessClass") {
			case 0:
				op.node, op.alpha = true, false
			case 1:
				op.node, op.alpha = false, true
			case 2:
				op.other, op.alpha = true, true
			case 3:
				op.other = true
			case 4:
				if n == 3 {
					op.node, op.major = true, true
					h.Mark("node-with-committee-majority-instead-of-alphabet")
				} else {
					op.node, op.alpha = true, true
				}
			default:
				op.node, op.alpha = true, true
			}
			if op.method == "addNode" && rapid.IntRange(0, 3).Draw(rt, "addNodeOnline") != 0 {
				op.state = 1
			}
			if op.key >= 0 {
				_, l := w.m.legacy[string(w.pub(op.key))]
				_, s := w.m.node2[string(w.pub(op.key))]
				if l && s && (op.method == "updateState" || op.method == "updateStateIR" || op.method == "deleteNode") && both {
					h.Mark("update-of-key-in-both-lists")
				}
			}
			w.apply(op)
			for k := range w.m.legacy {
				if _, ok := w.m.node2[k]; ok {
					both = true
				}
			}
		}
		if h.Has("update-of-key-in-both-lists") {
			h.NonTrivial()
		}
	})
}

// TestC07Matrix enumerates (operation, state value, list membership, witness set) for one key.
func TestC07Matrix(t *testing.T) {
	theT = t
	col := ev.New("C07", "matrix",
		"complete enumeration for one key: 6 operations x 7 state values x membership {neither, legacy, structured, both} x 5 witness sets {node+Alphabet, node only, Alphabet only, other node+Alphabet, node+committee majority on a 3-key committee}, each on a fresh contract",
	)
	defer func() { col.Flush(true) }()
	wit := []struct{ node, alpha, other, major bool }{{true, true, false, false}, {true, false, false, false}, {false, true, false, false}, {false, true, true, false}, {true, false, false, true}}
	for _, method := range []string{"addPeer", "addPeerIR", "addNode", "updateState", "updateStateIR", "deleteNode"} {
		for _, st := range []int{0, 1, 2, 3, 4, 42, -1} {
			if (method == "addPeer" || method == "addPeerIR" || method == "deleteNode") && st != 1 {
				continue // no state argument
			}
			for member := 0; member < 4; member++ {
				for _, wt := range wit {
					h := ev.NewHistory()
					ok := runCase(t, col, h, func() {
						nn := 1
						if wt.major {
							nn = 3
						}
						w := &c07World{nmWorld: newNmWorld(nn, h), m: newCandModel()}
						defer w.close()
						if member&1 != 0 {
							w.apply(candOp{method: "addPeerIR", key: 0, state: 1, marker: 1, alpha: true})
						}
						if member&2 != 0 {
							w.apply(candOp{method: "addNode", key: 0, state: 1, marker: 2, node: true, alpha: true})
						}
						if member == 3 && rapidFree(st) {
							// put the two representations into different states first
							w.apply(candOp{method: "updateStateIR", key: 0, state: 3, alpha: true})
							w.apply(candOp{method: "addNode", key: 0, state: 1, marker: 3, node: true, alpha: true})
						}
						w.apply(candOp{method: method, key: 0, state: st, marker: 5, node: wt.node, alpha: wt.alpha, other: wt.other, major: wt.major})
						h.NonTrivial()
					})
					if !ok {
						return
					}
				}
			}
		}
	}
	col.SetExhaustive(true)
}

func rapidFree(st int) bool { return st%2 == 1 }
