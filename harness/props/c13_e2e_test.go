//go:build verif

package props

import (
	"context"
	"fmt"
	"os"
	"sort"
	"strings"
	"sync"
	"testing"
	"time"

	"github.com/nspcc-dev/neo-go/pkg/core/native/noderoles"
	"github.com/nspcc-dev/neo-go/pkg/crypto/keys"
	"github.com/nspcc-dev/neo-go/pkg/util"
	"github.com/nspcc-dev/neo-go/pkg/vm/stackitem"
	"github.com/nspcc-dev/neo-go/pkg/wallet"
	"github.com/nspcc-dev/neofs-contract/deploy"
	rpcnns "github.com/nspcc-dev/neofs-contract/rpc/nns"
	"go.uber.org/zap"
	"pgregory.net/rapid"

	"verif/harness/chainkit"
	"verif/harness/ev"
	"verif/harness/simchain"
)

// schedule is one generated run of the deployment procedure.
type schedule struct {
	n            int
	start        []int          // block (relative) at which member i starts
	absent       []bool         // joins only after the Notary role is on chain
	cancelMember int            // -1: nobody is interrupted
	cancelAt     int            // relative block at which the member's run is cancelled
	restartAfter int            // blocks until the member is started again
	more         []interruption // further interruptions (any member, also the same one again)
	leaveAt      []int          // >0: the member's process dies at this block and comes back only after the Notary role is on chain
	// event driven churn (block numbers cannot be fixed in advance because they depend on block rewards):
	early []bool // starts at once, dies 3 blocks after its signature record is in NNS, returns after the Notary role is on chain
	late  []bool // starts only after the shared transaction data has expired and was re-created by the leader
	// leaderOutage > 0 (event driven): the leader's process dies leaderDelay blocks after it has published the shared
	// transaction data of the Notary bootstrap (the others sign meanwhile) and comes back leaderOutage blocks later
	// (the data is valid for 120 blocks: longer outages return to expired data and stale signatures)
	leaderOutage, leaderDelay int
}

func (s schedule) String() string {
	return fmt.Sprintf("n=%d start=%v absent=%v leaveAt=%v early=%v late=%v cancel(member %d at block %d, restart after %d) more=%v leaderOutage=%d after %d", s.n, s.start, s.absent, s.leaveAt, s.early, s.late, s.cancelMember, s.cancelAt, s.restartAfter, s.more, s.leaderOutage, s.leaderDelay)
}

func (s schedule) nontrivial() bool {
	if s.n < 2 {
		return false
	}
	if s.cancelMember >= 0 || s.leaveAt != nil || s.early != nil || len(s.more) > 0 || s.leaderOutage > 0 {
		return true
	}
	for i := range s.start {
		if s.start[i] != s.start[0] || s.absent[i] {
			return true
		}
	}
	return false
}

type glagolitsa struct{}

func (glagolitsa) Size() int                  { return 41 }
func (glagolitsa) LetterByIndex(i int) string { return fmt.Sprintf("letter%02d", i) }

var systemContracts = []string{"proxy", "audit", "netmap", "balance", "reputation", "neofsid", "container"}

func prmFor(sim *simchain.Sim, i int, ctx context.Context) deploy.Prm {
	var prm deploy.Prm
	prm.Logger = zap.NewNop()
	if lg := os.Getenv("VERIF_C13_LOG"); lg != "" && (i == 0 || lg == "all") {
		l, _ := zap.NewDevelopment()
		prm.Logger = l.Named(fmt.Sprintf("m%d", i))
	}
	prm.Blockchain = sim.NewMember(ctx)
	kc, _ := keys.NewPrivateKeyFromBytes(sim.Keys[i].Bytes())
	prm.LocalAccount = wallet.NewAccountFromPrivateKey(kc)
	prm.ValidatorMultiSigAccount = sim.ValAccs[i]
	set := func(name string) deploy.CommonDeployPrm {
		cc := chainkit.Contract(name)
		return deploy.CommonDeployPrm{NEF: *cc.NEF, Manifest: *cc.Manifest}
	}
	prm.NNS.Common = set("nns")
	prm.NNS.SystemEmail = "nonexistent@nspcc.io"
	prm.ProxyContract.Common = set("proxy")
	prm.AuditContract.Common = set("audit")
	prm.NetmapContract.Common = set("netmap")
	prm.NetmapContract.Config = deploy.NetworkConfiguration{MaxObjectSize: 1 << 20, StoragePrice: 1, AuditFee: 1, EpochDuration: 240, ContainerFee: 1, ContainerAliasFee: 1, EigenTrustIterations: 4, EigenTrustAlpha: 0.1, IRCandidateFee: 1, WithdrawalFee: 1}
	prm.BalanceContract.Common = set("balance")
	prm.ReputationContract.Common = set("reputation")
	prm.NeoFSIDContract.Common = set("neofsid")
	prm.ContainerContract.Common = set("container")
	prm.AlphabetContract.Common = set("alphabet")
	prm.Glagolitsa = glagolitsa{}
	return prm
}

// interruption: a member's process is killed at a block and started again later.
type interruption struct{ member, at, restartAfter int }

type memberRun struct {
	cancel context.CancelFunc
	done   chan error
}

// driveDeploy runs the schedule; ok=false means the block budget was exhausted.
func driveDeploy(sim *simchain.Sim, s schedule, quiet time.Duration, maxBlocks int, h *ev.History) (errs []error, ok bool) {
	n := s.n
	h0 := int(sim.BC.BlockHeight())
	runs := make([]*memberRun, n)
	finished := make([]bool, n)
	errs = make([]error, n)
	started := make([]bool, n)
	cancelled, restarted := false, false
	moreState := make([]int, len(s.more)) // 0 waiting, 1 killed, 2 restarted
	left, rejoined := make([]bool, n), make([]bool, n)
	sigSeen := make([]int, n)
	firstShared := ""
	leaderSharedAt, leaderDownAt, leaderBack := -1, -1, false
	var mu sync.Mutex
	startMember := func(i int) {
		ctx, cancel := context.WithCancel(context.Background())
		r := &memberRun{cancel: cancel, done: make(chan error, 1)}
		runs[i] = r
		go func() { r.done <- deploy.Deploy(ctx, prmFor(sim, i, ctx)) }()
	}
	defer func() {
		for _, r := range runs {
			if r != nil {
				r.cancel()
			}
		}
	}()
	notaryOn := func() bool {
		ks, _, err := sim.BC.GetDesignatedByRole(noderoles.P2PNotary)
		return err == nil && len(ks) > 0
	}
	for {
		rel := int(sim.BC.BlockHeight()) - h0
		for i := 0; i < n; i++ {
			if !started[i] && rel >= s.start[i] && (!s.absent[i] || notaryOn()) && !(s.late != nil && s.late[i]) {
				started[i] = true
				h.Op("block +%d: member %d starts", rel, i)
				startMember(i)
			}
		}
		if s.early != nil {
			shared := nnsTXT(sim, "designate-committee-notary-tx.bootstrap")
			if firstShared == "" && shared != "" {
				firstShared = shared
				h.Op("block +%d: the leader published the shared transaction data", rel)
			}
			recreated := firstShared != "" && shared != "" && shared != firstShared
			for i := 1; i < n; i++ {
				if s.early[i] && !left[i] && started[i] {
					if nnsTXT(sim, fmt.Sprintf("designate-committee-notary-%d.bootstrap", i)) != "" {
						sigSeen[i]++
					}
					if sigSeen[i] >= 4 {
						left[i] = true
						runs[i].cancel()
						<-runs[i].done
						runs[i] = nil
						h.Op("block +%d: member %d published its signature, the leader had 3 blocks to read it; its process dies", rel, i)
					}
				}
				if s.early[i] && left[i] && !rejoined[i] && notaryOn() {
					rejoined[i] = true
					h.Op("block +%d: member %d comes back (the Notary role is on chain)", rel, i)
					startMember(i)
				}
				if s.late[i] && !started[i] && recreated {
					allEarlyGone := true
					for j := 1; j < n; j++ {
						if s.early[j] && !left[j] {
							allEarlyGone = false
						}
					}
					if allEarlyGone {
						started[i] = true
						h.Op("block +%d: member %d starts (the shared data expired and was re-created)", rel, i)
						startMember(i)
					}
				}
			}
		}
		if s.leaderOutage > 0 && started[0] {
			if leaderSharedAt < 0 && nnsTXT(sim, "designate-committee-notary-tx.bootstrap") != "" {
				leaderSharedAt = rel
				h.Op("block +%d: the leader published the shared transaction data", rel)
			}
			if leaderSharedAt >= 0 && leaderDownAt < 0 && rel >= leaderSharedAt+s.leaderDelay && runs[0] != nil && !finished[0] && !notaryOn() {
				leaderDownAt = rel
				runs[0].cancel()
				<-runs[0].done
				runs[0] = nil
				h.Op("block +%d: the leader's process dies (outage of %d blocks)", rel, s.leaderOutage)
			}
			if leaderDownAt >= 0 && !leaderBack && rel >= leaderDownAt+s.leaderOutage {
				leaderBack = true
				sig := 0
				for i := 1; i < n; i++ {
					if nnsTXT(sim, fmt.Sprintf("designate-committee-notary-%d.bootstrap", i)) != "" {
						sig++
					}
				}
				h.Op("block +%d: the leader restarts (%d member signature(s) in NNS)", rel, sig)
				if sig > 0 && s.leaderOutage > 120 {
					h.Mark("leader-back-to-expired-data-and-stale-signatures")
				}
				startMember(0)
			}
		}
		for i := 0; i < n && s.leaveAt != nil; i++ {
			if s.leaveAt[i] > 0 && !left[i] && started[i] && !finished[i] && rel >= s.leaveAt[i] {
				left[i] = true
				runs[i].cancel()
				<-runs[i].done
				runs[i] = nil
				h.Op("block +%d: member %d's process dies", rel, i)
			}
			if left[i] && !rejoined[i] && notaryOn() {
				rejoined[i] = true
				h.Op("block +%d: member %d comes back (the Notary role is on chain)", rel, i)
				startMember(i)
			}
		}
		for k, in := range s.more {
			switch {
			case moreState[k] == 0 && rel >= in.at && started[in.member] && !finished[in.member] && runs[in.member] != nil:
				moreState[k] = 1
				runs[in.member].cancel()
				err := <-runs[in.member].done
				h.Op("block +%d: member %d interrupted (its run returned: %v)", rel, in.member, err != nil)
				runs[in.member] = nil
			case moreState[k] == 1 && rel >= in.at+in.restartAfter:
				moreState[k] = 2
				if runs[in.member] == nil && !finished[in.member] {
					h.Op("block +%d: member %d restarted", rel, in.member)
					startMember(in.member)
				}
			}
		}
		if s.cancelMember >= 0 && !cancelled && rel >= s.cancelAt && started[s.cancelMember] && !finished[s.cancelMember] && runs[s.cancelMember] != nil {
			cancelled = true
			runs[s.cancelMember].cancel()
			err := <-runs[s.cancelMember].done
			h.Op("block +%d: member %d interrupted (its run returned: %v)", rel, s.cancelMember, err != nil)
			runs[s.cancelMember] = nil
		}
		if cancelled && !restarted && rel >= s.cancelAt+s.restartAfter {
			restarted = true
			if runs[s.cancelMember] == nil && !finished[s.cancelMember] {
				h.Op("block +%d: member %d restarted", rel, s.cancelMember)
				startMember(s.cancelMember)
			}
		}
		all := true
		for i := 0; i < n; i++ {
			if finished[i] {
				continue
			}
			if runs[i] == nil {
				all = false
				continue
			}
			select {
			case err := <-runs[i].done:
				mu.Lock()
				finished[i], errs[i] = true, err
				mu.Unlock()
				h.Op("block +%d: member %d returned %v", rel, i, err)
			default:
				all = false
			}
		}
		if all {
			return errs, true
		}
		bootBudget := 250 + 60*n
		if s.leaveAt != nil || s.early != nil {
			bootBudget += 650
		}
		for _, st := range s.start {
			bootBudget = max(bootBudget, 250+60*n+st+120)
		}
		bootBudget += s.restartAfter + s.leaderOutage
		if s.leaderOutage > 0 {
			bootBudget += 240
		}
		for _, in := range s.more {
			bootBudget += in.restartAfter + 120
		}
		if rel > maxBlocks || (rel > bootBudget && !notaryOn()) {
			// (a run that cannot even designate the Notary role will not finish: give up early)
			return errs, false
		}
		deadline := time.Now().Add(5 * time.Second)
		for sim.IdleFor() < quiet && time.Now().Before(deadline) {
			time.Sleep(2 * time.Millisecond)
		}
		if _, err := sim.ProduceBlock(); err != nil {
			panic(chainkit.HarnessError{Msg: "simchain: produce block: " + err.Error()})
		}
		time.Sleep(4 * time.Millisecond)
	}
}

// chainState is what must not change when the procedure runs again.
type chainState struct {
	contracts []string
	nns       map[string][]byte
	roles     string
}

func snapshotChain(sim *simchain.Sim) chainState {
	var st chainState
	miss := 0
	for id := int32(1); miss < 5; id++ {
		hsh, err := sim.BC.GetContractScriptHash(id)
		if err != nil {
			miss++
			continue
		}
		cs := sim.BC.GetContractState(hsh)
		st.contracts = append(st.contracts, fmt.Sprintf("%d:%s:%s:upd%d:nef%d", id, cs.Manifest.Name, hsh.StringLE(), cs.UpdateCounter, cs.NEF.Checksum))
	}
	st.nns = map[string][]byte{}
	sim.BC.SeekStorage(1, nil, func(k, v []byte) bool {
		st.nns[string(append([]byte{}, k...))] = append([]byte{}, v...)
		return true
	})
	for _, r := range []noderoles.Role{noderoles.P2PNotary, noderoles.NeoFSAlphabet} {
		ks, hgt, _ := sim.BC.GetDesignatedByRole(r)
		st.roles += fmt.Sprintf("%d@%d:%x;", r, hgt, ks.Bytes())
	}
	return st
}

// checkDeployed is the post-state oracle of C13.
func checkDeployed(sim *simchain.Sim, n int) {
	committee, _ := sim.BC.GetCommittee()
	sort.Sort(committee)
	for _, r := range []noderoles.Role{noderoles.P2PNotary, noderoles.NeoFSAlphabet} {
		ks, _, err := sim.BC.GetDesignatedByRole(r)
		sort.Sort(ks)
		if err != nil || len(ks) != len(committee) {
			fail("C13: role %v is designated to %d keys, the committee has %d", r, len(ks), len(committee))
		}
		for i := range ks {
			if !ks[i].Equal(committee[i]) {
				fail("C13: role %v is not designated to exactly the committee", r)
			}
		}
	}
	nnsHash, err := sim.BC.GetContractScriptHash(1)
	if err != nil {
		fail("C13: no contract with id 1")
	}
	if cs := sim.BC.GetContractState(nnsHash); cs.Manifest.Name != "NameService" || cs.NEF.Checksum != chainkit.Contract("nns").NEF.Checksum {
		fail("C13: contract 1 is %q, not the supplied NNS", cs.Manifest.Name)
	}
	m := sim.NewMember(context.Background())
	expect := map[string]string{}
	for _, name := range systemContracts {
		expect[name] = name
	}
	for i := 0; i < n; i++ {
		expect[fmt.Sprintf("alphabet%d", i)] = "alphabet"
	}
	seen := map[util.Uint160]string{}
	for domain, src := range expect {
		script := chainkit.Script(nnsHash, "resolve", domain+".neofs", recTXT)
		res, err := m.InvokeScript(script, nil)
		if err != nil || res.State != "HALT" || len(res.Stack) != 1 {
			fail("C13: %s.neofs does not resolve: %v %v", domain, err, res)
		}
		arr, _ := res.Stack[0].Value().([]any)
		_ = arr
		items := chainkit.ItemArr(res.Stack[0])
		if len(items) != 1 {
			fail("C13: %s.neofs resolves to %d records, expected exactly one", domain, len(items))
		}
		hsh, err := rpcnns.AddressFromRecord(string(chainkit.ItemBytes(items[0])))
		if err != nil {
			fail("C13: record of %s.neofs is not an address: %v", domain, err)
		}
		cs := sim.BC.GetContractState(hsh)
		if cs == nil {
			fail("C13: %s.neofs points to %s which is not a contract", domain, hsh.StringLE())
		}
		if cs.NEF.Checksum != chainkit.Contract(src).NEF.Checksum {
			fail("C13: %s.neofs points to a contract that does not carry the supplied %s executable", domain, src)
		}
		if prev, dup := seen[hsh]; dup {
			fail("C13: %s.neofs and %s.neofs resolve to the same contract", domain, prev)
		}
		seen[hsh] = domain
	}
	cnt := 0
	miss := 0
	for id := int32(1); miss < 5; id++ {
		if _, err := sim.BC.GetContractScriptHash(id); err != nil {
			miss++
			continue
		}
		cnt++
	}
	if cnt != 8+n {
		fail("C13: %d contracts are deployed, expected %d (8 system contracts + %d Alphabet contracts)", cnt, 8+n, n)
	}
	// the committee's NEO went to the Alphabet contracts in shares that differ by at most one
	var minNEO, maxNEO, sumNEO int64
	minNEO = -1
	for hsh, domain := range seen {
		if !strings.HasPrefix(domain, "alphabet") {
			continue
		}
		b := sim.BC.GetUtilityTokenBalance(hsh)
		_ = b
		neo, _ := sim.BC.GetGoverningTokenBalance(hsh)
		v := neo.Int64()
		sumNEO += v
		if minNEO < 0 || v < minNEO {
			minNEO = v
		}
		if v > maxNEO {
			maxNEO = v
		}
	}
	if maxNEO-minNEO > 1 {
		fail("C13: the NEO shares of the Alphabet contracts differ by %d (min %d, max %d)", maxNEO-minNEO, minNEO, maxNEO)
	}
	if sumNEO != 100_000_000 {
		fail("C13: the Alphabet contracts hold %d NEO together, the committee account received 100000000", sumNEO)
	}
}

// nnsTXT reads the first TXT record of a domain ("" when the NNS, the domain or the record is missing).
func nnsTXT(sim *simchain.Sim, domain string) string {
	nnsHash, err := sim.BC.GetContractScriptHash(1)
	if err != nil {
		return ""
	}
	res, err := sim.NewMember(context.Background()).InvokeScript(chainkit.Script(nnsHash, "getRecords", domain, recTXT), nil)
	if err != nil || res.State != "HALT" || len(res.Stack) != 1 {
		return ""
	}
	items, ok := res.Stack[0].Value().([]stackitem.Item)
	if !ok || len(items) == 0 {
		return ""
	}
	b, _ := items[0].TryBytes()
	return string(b)
}

func seq(a, b int) []int {
	var r []int
	for i := a; i < b; i++ {
		r = append(r, i)
	}
	return r
}

func keyOfMember(i int) *keys.PrivateKey { return chainkit.DetKey(fmt.Sprintf("committee-%d", i)) }

// runSchedule executes one schedule including the idempotent re-run.
func runSchedule(s schedule, h *ev.History, col *ev.Collector) {
	maxBlocks := 700 + 150*s.n
	if s.leaveAt != nil || s.early != nil {
		maxBlocks += 600
	}
	// late starts and outages extend the run by their length (and by up to one 100-block validity window each)
	for _, st := range s.start {
		maxBlocks = max(maxBlocks, 700+150*s.n+st+100)
	}
	outage := s.restartAfter + s.leaderOutage
	if s.leaderOutage > 0 {
		outage += 240
	}
	for _, in := range s.more {
		outage += in.restartAfter + 100
	}
	maxBlocks += outage
	quiet := 12 * time.Millisecond
	var sim *simchain.Sim
	var errs []error
	for attempt := 0; ; attempt++ {
		var err error
		sim, err = simchain.New(s.n, keyOfMember)
		if err != nil {
			panic(chainkit.HarnessError{Msg: "simchain: " + err.Error()})
		}
		var ok bool
		errs, ok = driveDeploy(sim, s, quiet, maxBlocks, h)
		if ok {
			break
		}
		blocks := sim.BC.BlockHeight()
		sim.Close()
		if attempt == 1 {
			fail("C13: the deployment did not finish within %d blocks (twice, the second time with slower pacing): %s", blocks, s)
		}
		h.Op("budget of %d blocks exhausted, one more try with slower pacing", maxBlocks)
		col.Count("retry-with-slower-pacing", 1)
		quiet *= 3
	}
	defer sim.Close()
	for i, e := range errs {
		if e != nil {
			fail("C13: member %d's run failed: %v (%s)", i, e, s)
		}
	}
	blocks := sim.BC.BlockHeight()
	h.Op("all %d members finished at height %d (%d transactions, %d notary requests)", s.n, blocks, sim.SentTx.Load(), sim.SentReq.Load())
	checkDeployed(sim, s.n)
	// idempotence: everybody runs the procedure again on the finished chain
	before := snapshotChain(sim)
	tx0, rq0 := sim.SentTx.Load(), sim.SentReq.Load()
	again := schedule{n: s.n, start: make([]int, s.n), absent: make([]bool, s.n), cancelMember: -1}
	errs2, ok := driveDeploy(sim, again, quiet, 300, h)
	if !ok {
		fail("C13: the second run on the finished chain did not return within 300 blocks")
	}
	for i, e := range errs2 {
		if e != nil {
			fail("C13: member %d's second run failed: %v", i, e)
		}
	}
	after := snapshotChain(sim)
	if strings.Join(before.contracts, "\n") != strings.Join(after.contracts, "\n") {
		fail("C13: the second run changed the contract set:\n%s\n->\n%s", strings.Join(before.contracts, "\n"), strings.Join(after.contracts, "\n"))
	}
	if before.roles != after.roles {
		fail("C13: the second run designated roles again: %s -> %s", before.roles, after.roles)
	}
	if !sameRaw(before.nns, after.nns) {
		fail("C13: the second run changed the NNS storage (registered or rewrote records)")
	}
	h.Op("second run: nothing deployed, updated, registered or designated (%d transactions, %d notary requests were sent)", sim.SentTx.Load()-tx0, sim.SentReq.Load()-rq0)
	checkDeployed(sim, s.n)
}

func TestC13Deploy(t *testing.T) {
	theT = t
	col := ev.New("C13", "deploy",
		"end-to-end: deploy.Deploy is run by every member of an n-key committee (n from VERIF_C13_N, default 1..4) against an in-process implementation of deploy.Blockchain on a real neo-go core.Blockchain with the Notary service, with the freshly compiled executables; generated schedules: per-member start block (shape late: up to a minority, possibly the leader, 60..500 blocks after the others), a minority of non-leading members absent until the Notary role is on chain, one member interrupted at a generated block and restarted 1..200 blocks later, two or three interruptions of arbitrary members (multi-cancel), churn and expiry-churn around the Notary bootstrap, leader-outage (the leader dies 0..3 blocks after publishing the shared transaction data of the Notary bootstrap and returns 30..200 blocks later, i.e. within or beyond the 120-block validity of the data, to the signatures the others published meanwhile); blocks are produced by the harness when the members are quiescent; oracle: every run returns nil within a block budget (one retry with slower pacing before a violation), Notary and NeoFSAlphabet roles = committee, contract 1 is the supplied NNS, every system name of the neofs zone resolves to exactly one distinct contract carrying the supplied executable, 8+n contracts, the Alphabet contracts hold the whole NEO supply in shares differing by at most one, and a second run of all members changes neither the contract set/update counters nor the NNS storage nor the designations; non-trivial = n>=2 with non-simultaneous start, absence or interruption",
		"the harness owns block production, start, interruption and absence - not the goroutine interleaving inside Deploy", "termination is decided as 'finishes within a budget of blocks'")
	nsEnv := os.Getenv("VERIF_C13_N")
	ns := []int{1, 2, 3, 4}
	if nsEnv != "" {
		ns = nil
		for _, f := range strings.Split(nsEnv, ",") {
			var v int
			fmt.Sscan(f, &v)
			ns = append(ns, v)
		}
	}
	runRapid(t, col, func(rt *rapid.T, h *ev.History) {
		n := rapid.SampledFrom(ns).Draw(rt, "n")
		s := schedule{n: n, start: make([]int, n), absent: make([]bool, n), cancelMember: -1}
		shapes := []string{"simultaneous", "staggered", "staggered", "absent", "cancel", "cancel", "late", "multi-cancel", "multi-cancel", "all-restart"}
		if n >= 2 {
			shapes = append(shapes, "leader-outage")
		}
		if n >= 4 {
			shapes = append(shapes, "churn", "expiry-churn")
		}
		if sh := os.Getenv("VERIF_C13_SHAPE"); sh != "" {
			shapes = []string{sh}
		}
		switch rapid.SampledFrom(shapes).Draw(rt, "shape") {
		case "expiry-churn":
			// Like churn, but driven by events: the early minority dies after the leader could read
			// its signatures, the shared data is left to expire and be re-created, only then the
			// rest of a majority starts (stale signatures must not be counted for the new data).
			need := n/2 + 1 - 1
			early := rapid.IntRange(1, need-1).Draw(rt, "earlyMembers")
			s.early, s.late = make([]bool, n), make([]bool, n)
			perm := rapid.Permutation(seq(1, n)).Draw(rt, "memberOrder")
			for j, i := range perm {
				if j < early {
					s.early[i] = true
				} else {
					s.late[i] = true
				}
			}
		case "churn":
			// An early minority (too small to complete the bootstrap with the leader) signs and dies;
			// the rest of a majority arrives only after the shared transaction data has expired
			// (> 120 blocks); the early ones return after the Notary role is designated.
			need := n/2 + 1 - 1 // remote signatures the leader needs
			early := rapid.IntRange(1, need-1).Draw(rt, "earlyMembers")
			s.leaveAt = make([]int, n)
			perm := rapid.Permutation(seq(1, n)).Draw(rt, "memberOrder")
			for j, i := range perm {
				if j < early {
					s.leaveAt[i] = rapid.IntRange(100, 125).Draw(rt, "leaveAt")
				} else {
					s.start[i] = rapid.IntRange(135, 170).Draw(rt, "lateStart")
				}
			}
		case "leader-outage":
			// the leader dies right after (0..3 blocks) it has published the shared transaction data of the Notary
			// bootstrap, the others publish their signatures meanwhile; it returns within the validity of the data
			// (30, 100) or after the data has expired (125, 140, 200): the stale signatures must be replaced
			s.leaderDelay = rapid.IntRange(0, 3).Draw(rt, "leaderDelay")
			s.leaderOutage = rapid.SampledFrom([]int{30, 100, 125, 140, 200}).Draw(rt, "leaderOutage")
			for i := range s.start {
				s.start[i] = rapid.IntRange(0, 3).Draw(rt, "startBlock")
			}
		case "late":
			// up to a minority of the members (possibly the leader) starts hundreds of blocks after the others
			late := rapid.IntRange(1, max(1, n-(n/2+1))).Draw(rt, "lateMembers")
			perm := rapid.Permutation(seq(0, n)).Draw(rt, "memberOrder")
			for j, i := range perm {
				if j < late && n > 1 {
					s.start[i] = rapid.IntRange(60, 500).Draw(rt, "lateStart")
				} else {
					s.start[i] = rapid.IntRange(0, 5).Draw(rt, "startBlock")
				}
			}
		case "all-restart":
			// every member's process dies at the same block (a data-centre outage) and comes back later
			at := rapid.IntRange(1, 80+50*n).Draw(rt, "at")
			after := rapid.SampledFrom([]int{1, 2, 5, 20, 60}).Draw(rt, "restartAfter")
			for i := 0; i < n; i++ {
				s.more = append(s.more, interruption{member: i, at: at, restartAfter: after + rapid.IntRange(0, 3).Draw(rt, "skew")})
			}
		case "multi-cancel":
			// two or three interruptions of any members (also the same one twice), short and long outages
			k := rapid.IntRange(2, 3).Draw(rt, "interruptions")
			for j := 0; j < k; j++ {
				s.more = append(s.more, interruption{
					member:       rapid.IntRange(0, n-1).Draw(rt, "member"),
					at:           rapid.IntRange(1, 80+60*n).Draw(rt, "at"),
					restartAfter: rapid.SampledFrom([]int{1, 2, 5, 10, 25, 40, 90, 150}).Draw(rt, "restartAfter"),
				})
			}
			for i := range s.start {
				s.start[i] = rapid.IntRange(0, 5).Draw(rt, "startBlock")
			}
		case "staggered":
			for i := range s.start {
				s.start[i] = rapid.IntRange(0, 40).Draw(rt, "startBlock")
			}
		case "absent":
			// a minority of non-leading members joins only after the Notary role is designated
			maxAbsent := n - (n/2 + 1)
			for i := n - 1; i >= 1 && maxAbsent > 0; i-- {
				if rapid.Bool().Draw(rt, "absent") {
					s.absent[i] = true
					maxAbsent--
				}
			}
		case "cancel":
			s.cancelMember = rapid.IntRange(0, n-1).Draw(rt, "cancelMember")
			s.cancelAt = rapid.IntRange(1, 60+40*n).Draw(rt, "cancelAt")
			s.restartAfter = rapid.OneOf(rapid.IntRange(1, 30), rapid.IntRange(1, 30), rapid.IntRange(31, 200)).Draw(rt, "restartAfter")
			for i := range s.start {
				s.start[i] = rapid.IntRange(0, 5).Draw(rt, "startBlock")
			}
		}
		h.Op("schedule: %s", s)
		runSchedule(s, h, col)
		if s.nontrivial() {
			h.NonTrivial()
		}
	})
}

// parseSchedule reads "n;start,start,..;cancelMember,cancelAt,restartAfter[;absent,absent,..]".
func parseSchedule(spec string) schedule {
	parts := strings.Split(spec, ";")
	var s schedule
	fmt.Sscan(parts[0], &s.n)
	for _, f := range strings.Split(parts[1], ",") {
		var x int
		fmt.Sscan(f, &x)
		s.start = append(s.start, x)
	}
	s.absent = make([]bool, s.n)
	s.cancelMember = -1
	if len(parts) > 2 && parts[2] != "" {
		fmt.Sscanf(parts[2], "%d,%d,%d", &s.cancelMember, &s.cancelAt, &s.restartAfter)
	}
	if len(parts) > 3 {
		for _, f := range strings.Split(parts[3], ",") {
			var x int
			fmt.Sscan(f, &x)
			s.absent[x] = true
		}
	}
	return s
}

// c13Regressions are the shrunk schedules of earlier violations (all fixed in /repo); they are replayed by every run.
var c13Regressions = []struct{ spec, what string }{
	{"2;5,1;0,135,22", "fixed 4933dce: member 0 of 2 restarted while member 1 floods NEO distribution requests (Notary deposit exhausted, nobody can co-sign)"},
	{"4;0,0,0,0;;1", "fixed a006c90: member 1 of 4 absent during the Notary bootstrap (leader stopped reading at the first missing signature)"},
	{"2;0,0", "fixed a006c90: two members (the leader never read member 1's domain)"},
	{"3;0,0,0;1,140,20", "a non-leading member of 3 restarted at the NEO distribution stage"},
	{"4;3,0,7,1;0,150,30", "the leader of 4 restarted late"},
}

// TestC13CrashPoints: a single-member committee interrupted at every block of its run.
func TestC13CrashPoints(t *testing.T) {
	theT = t
	col := ev.New("C13", "crash-points",
		"complete enumeration for committees of 1 (every block 1..VERIF_C13_CRASH_MAX1, default 50) and 2 keys (both members at once, every second block 2..VERIF_C13_CRASH_MAX2, default 0 = off in quick): all members are interrupted at that block and restarted 1 block later; same oracle as the generated schedules; non-trivial = every schedule")
	defer func() { col.Flush(true) }()
	nshards, shard := envInt("VERIF_NSHARDS", 1), envInt("VERIF_SHARD_INDEX", 0)
	idx := 0
	run := func(s schedule) bool {
		idx++
		if idx%nshards != shard {
			return true
		}
		h := ev.NewHistory()
		h.Op("schedule: %s", s)
		return runCase(t, col, h, func() {
			runSchedule(s, h, col)
			h.NonTrivial()
		})
	}
	for at := 1; at <= envInt("VERIF_C13_CRASH_MAX1", 50); at++ {
		if !run(schedule{n: 1, start: []int{0}, absent: []bool{false}, cancelMember: 0, cancelAt: at, restartAfter: 1}) {
			return
		}
	}
	for at := 2; at <= envInt("VERIF_C13_CRASH_MAX2", 0); at += 2 {
		s := schedule{n: 2, start: []int{0, 0}, absent: []bool{false, false}, cancelMember: -1}
		s.more = []interruption{{0, at, 1}, {1, at, 1}}
		if !run(s) {
			return
		}
	}
	col.SetExhaustive(true)
}

// TestC13LeaderOutage enumerates the event-driven leader outages around the Notary bootstrap.
func TestC13LeaderOutage(t *testing.T) {
	theT = t
	col := ev.New("C13", "leader-outage",
		"complete enumeration of committee size (VERIF_C13_LO_N, default 2,3) x delay (VERIF_C13_LO_DELAY, default 0,1,2 blocks) x outage (VERIF_C13_LO_OUT, default 100,130 blocks): every member starts at block 0, the leader's process dies <delay> blocks after it has published the shared transaction data of the Notary bootstrap (the others publish their signatures meanwhile) and is started again <outage> blocks later - within the 120-block validity of the data or after its expiry, when the signatures in NNS are stale; same oracle as the generated schedules; non-trivial = every schedule")
	defer func() { col.Flush(true) }()
	nshards, shard := envInt("VERIF_NSHARDS", 1), envInt("VERIF_SHARD_INDEX", 0)
	idx := 0
	for _, n := range envInts("VERIF_C13_LO_N", []int{2, 3}) {
		for _, out := range envInts("VERIF_C13_LO_OUT", []int{100, 130}) {
			for _, delay := range envInts("VERIF_C13_LO_DELAY", []int{0, 1, 2}) {
				idx++
				if idx%nshards != shard {
					continue
				}
				s := schedule{n: n, start: make([]int, n), absent: make([]bool, n), cancelMember: -1, leaderOutage: out, leaderDelay: delay}
				h := ev.NewHistory()
				h.Op("schedule: %s", s)
				if !runCase(t, col, h, func() {
					runSchedule(s, h, col)
					h.NonTrivial()
				}) {
					return
				}
			}
		}
	}
	col.SetExhaustive(true)
}

func TestC13Regressions(t *testing.T) {
	theT = t
	col := ev.New("C13", "regressions",
		"the shrunk schedules of every violation found so far (and three neighbours) are replayed on the working tree: same oracle as the generated schedules; non-trivial = every schedule")
	defer func() { col.Flush(true) }()
	nshards, shard := envInt("VERIF_NSHARDS", 1), envInt("VERIF_SHARD_INDEX", 0)
	for i, r := range c13Regressions {
		if i%nshards != shard {
			continue
		}
		s := parseSchedule(r.spec)
		h := ev.NewHistory()
		h.Op("regression %q: %s", r.spec, r.what)
		h.Op("schedule: %s", s)
		if !runCase(t, col, h, func() {
			runSchedule(s, h, col)
			h.NonTrivial()
		}) {
			return
		}
	}
	col.SetExhaustive(true)
}

// TestC13Debug runs one explicit schedule (VERIF_C13_DEBUG="n;start,start,..;cancelMember,cancelAt,restartAfter"); a development aid, not registered as a check.
func TestC13Debug(t *testing.T) {
	spec := os.Getenv("VERIF_C13_DEBUG")
	if spec == "" {
		t.Skip("no schedule given")
	}
	theT = t
	s := parseSchedule(spec)
	h := ev.NewHistory()
	col := ev.New("C13", "debug", "debug")
	defer func() {
		p := recover()
		for _, l := range h.Ops {
			t.Log(l)
		}
		if p != nil {
			t.Fatalf("%v", p)
		}
	}()
	runSchedule(s, h, col)
}
