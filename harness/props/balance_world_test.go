package props

import (
	"crypto/sha256"
	"fmt"
	"math/big"
	"sort"

	"github.com/nspcc-dev/neo-go/pkg/core/state"
	"github.com/nspcc-dev/neo-go/pkg/neotest"
	"github.com/nspcc-dev/neo-go/pkg/util"
	"github.com/nspcc-dev/neo-go/pkg/vm/stackitem"
	"pgregory.net/rapid"

	"verif/harness/chainkit"
	"verif/harness/ev"
)

// balWorld is the Balance fixture shared by C01, C02 and C09: NNS + Netmap +
// Balance on an n-key chain, three user accounts, one account that is a
// contract (the actor probe), one never funded account.
type balWorld struct {
	c      *chainkit.Chain
	fs     *chainkit.FS
	bal    util.Uint160
	netmap util.Uint160
	actor  util.Uint160
	users  []neotest.SingleSigner
	names  map[util.Uint160]string
	h      *ev.History
	fresh  int
	epoch  int64

	c01, c02 bool // which property's oracle is applied by check
}

// check applies the oracle(s) of the property under test to one invocation.
func (w *balWorld) check(pre, post *balState, o *chainkit.Outcome, op *balOp) {
	if w.c01 {
		w.checkC01(pre, post, o, op)
	}
	if w.c02 {
		w.checkC02(pre, post, o, op)
	}
}

// rawAcc is one raw storage entry under prefix 'a'.
type rawAcc struct {
	Balance *big.Int
	Until   int64
	Parent  []byte
}

// balState is everything observable of the Balance contract at one moment.
type balState struct {
	raw    map[string][]byte  // whole storage
	accs   map[string]*rawAcc // hex(20-byte address) -> account
	supply *big.Int           // raw "MainnetGAS"
}

func newBalWorld(n int, h *ev.History) *balWorld {
	c := chainkit.NewChain(theT, n, chainkit.Options{Validators: takeValidators()})
	fs := chainkit.NewFS(c, chainkit.FSOptions{Contracts: []string{"netmap", "balance"}})
	w := &balWorld{c: c, fs: fs, bal: fs.H["balance"], netmap: fs.H["netmap"], h: h, names: map[util.Uint160]string{}}
	w.actor = c.Deploy(chainkit.Probe("actor", ""), nil)
	for i := 0; i < 3; i++ {
		u := chainkit.NamedUser(fmt.Sprintf("bal-%d", i))
		w.users = append(w.users, u)
		w.names[u.ScriptHash()] = fmt.Sprintf("a%d", i+1)
	}
	w.names[w.actor] = "actor"
	w.names[c.Alphabet.ScriptHash()] = "Alphabet"
	if c.Committee.ScriptHash() != c.Alphabet.ScriptHash() {
		w.names[c.Committee.ScriptHash()] = "Majority"
	}
	return w
}

func (w *balWorld) close() { w.c.Close() }

func (w *balWorld) name(b []byte) string {
	if len(b) == 20 {
		var u util.Uint160
		copy(u[:], b)
		if n, ok := w.names[u]; ok {
			return n
		}
	}
	if len(b) == 0 {
		return "nil"
	}
	return "x" + hex(b)
}

// freshAddr returns an address never used before in any role.
func (w *balWorld) freshAddr() util.Uint160 {
	w.fresh++
	var u util.Uint160
	// (a digest, so that the storage order of lock accounts is unrelated to the order of their creation: a later
	// lock may sort before or after an earlier one, next to it or far away)
	d := sha256.Sum256([]byte(fmt.Sprintf("lock-account-%06d!", w.fresh)))
	copy(u[:], d[:20])
	w.names[u] = fmt.Sprintf("lock%d", w.fresh)
	return u
}

func (w *balWorld) state() *balState { return readBal(w.c, w.bal) }

// readBal scans the raw storage of a Balance contract.
func readBal(c *chainkit.Chain, bal util.Uint160) *balState {
	s := &balState{raw: c.Storage(bal), accs: map[string]*rawAcc{}, supply: big.NewInt(0)}
	for k, v := range s.raw {
		if k == "MainnetGAS" {
			s.supply = new(big.Int).Set(bigFromLE(v))
			continue
		}
		if len(k) >= 1 && k[0] == 'a' {
			if len(k) != 21 {
				fail("raw storage: account key of %d bytes under prefix 'a': %x", len(k)-1, k)
			}
			it, err := stackitem.Deserialize(v)
			if err != nil {
				fail("raw storage: account %x does not deserialize: %v", k, err)
			}
			f := chainkit.ItemArr(it)
			if len(f) != 3 {
				fail("raw storage: account %x has %d fields", k, len(f))
			}
			b, err := f[0].TryInteger()
			if err != nil {
				fail("raw storage: account %x balance: %v", k, err)
			}
			u, _ := f[1].TryInteger()
			a := &rawAcc{Balance: b, Parent: chainkit.ItemBytes(f[2])}
			if u != nil {
				a.Until = u.Int64()
			}
			s.accs[hex([]byte(k[1:]))] = a
		}
	}
	return s
}

func bigFromLE(b []byte) *big.Int {
	// VM integers are little-endian two's complement.
	if len(b) == 0 {
		return big.NewInt(0)
	}
	be := make([]byte, len(b))
	for i := range b {
		be[len(b)-1-i] = b[i]
	}
	v := new(big.Int).SetBytes(be)
	if be[0]&0x80 != 0 {
		v.Sub(v, new(big.Int).Lsh(big.NewInt(1), uint(8*len(b))))
	}
	return v
}

func (s *balState) bal(addr []byte) *big.Int {
	if a, ok := s.accs[hex(addr)]; ok {
		return a.Balance
	}
	return big.NewInt(0)
}

func sameRaw(a, b map[string][]byte) bool {
	if len(a) != len(b) {
		return false
	}
	for k, v := range a {
		w, ok := b[k]
		if !ok || string(v) != string(w) {
			return false
		}
	}
	return true
}

// balOp describes one invocation for the oracles.
type balOp struct {
	kind     string // transfer transferX mint burn lock newEpoch netmapEpoch
	amount   *big.Int
	signers  []neotest.Signer
	viaActor bool
	desc     string
}

func (op *balOp) signedBy(h util.Uint160) bool {
	for _, s := range op.signers {
		if s.ScriptHash() == h {
			return true
		}
	}
	return false
}

type xfer struct {
	from, to []byte
	amount   *big.Int
	details  []byte
}

func parseXfers(evs []state.NotificationEvent, bal util.Uint160) (t, tx []xfer) {
	for _, e := range evs {
		if e.ScriptHash != bal {
			continue
		}
		arr := chainkit.ItemArr(e.Item)
		switch e.Name {
		case "Transfer":
			if len(arr) != 3 {
				fail("Transfer event with %d fields", len(arr))
			}
			a, _ := arr[2].TryInteger()
			t = append(t, xfer{from: chainkit.ItemBytes(arr[0]), to: chainkit.ItemBytes(arr[1]), amount: a})
		case "TransferX":
			if len(arr) != 4 {
				fail("TransferX event with %d fields", len(arr))
			}
			a, _ := arr[2].TryInteger()
			tx = append(tx, xfer{from: chainkit.ItemBytes(arr[0]), to: chainkit.ItemBytes(arr[1]), amount: a, details: chainkit.ItemBytes(arr[3])})
		}
	}
	return
}

// checkC01 checks the statement of C01 for one persisted invocation.
func (w *balWorld) checkC01(pre, post *balState, o *chainkit.Outcome, op *balOp) {
	// (1) supply = sum of balances, via API and raw.
	sum := big.NewInt(0)
	for k, a := range post.accs {
		if a.Balance.Sign() < 0 {
			fail("C01: negative balance %v on account %s after %s", a.Balance, k, op.desc)
		}
		sum.Add(sum, a.Balance)
	}
	ts := w.c.Call(nil, w.bal, "totalSupply")
	tsv, ok := ts.BigInt()
	if !ok {
		fail("C01: totalSupply failed: %s", ts)
	}
	if tsv.Cmp(post.supply) != 0 {
		fail("C01: totalSupply() %v differs from stored supply %v", tsv, post.supply)
	}
	if sum.Cmp(tsv) != 0 {
		fail("C01: totalSupply %v != sum of balances %v after %s", tsv, sum, op.desc)
	}
	// balanceOf agrees with the raw scan for every known account.
	for k, a := range post.accs {
		b, _ := hexDecode(k)
		r := w.c.Call(nil, w.bal, "balanceOf", b)
		v, ok := r.BigInt()
		if !ok || v.Cmp(a.Balance) != 0 {
			fail("C01: balanceOf(%s) = %s but storage holds %v", w.name(b), r, a.Balance)
		}
	}
	// (3) supply moves only by successful mint / burn.
	want := new(big.Int).Set(pre.supply)
	refused := !o.Halt
	if op.kind == "transfer" && o.Halt {
		if b, ok := o.Bool(); ok && !b {
			refused = true
		}
	}
	if !refused {
		switch op.kind {
		case "mint":
			want.Add(want, op.amount)
		case "burn":
			want.Sub(want, op.amount)
		}
	}
	if want.Cmp(post.supply) != 0 {
		fail("C01: supply went %v -> %v after %s (%s), expected %v", pre.supply, post.supply, op.desc, o, want)
	}
	// (4) refused invocations change nothing.
	if refused && !sameRaw(pre.raw, post.raw) {
		fail("C01: refused invocation %s (%s) changed Balance storage", op.desc, o)
	}
	// (5) notifications.
	tr, trx := parseXfers(o.Events, w.bal)
	if len(tr) != len(trx) {
		fail("C01: %d Transfer vs %d TransferX notifications after %s", len(tr), len(trx), op.desc)
	}
	for i := range tr {
		if string(tr[i].from) != string(trx[i].from) || string(tr[i].to) != string(trx[i].to) || tr[i].amount.Cmp(trx[i].amount) != 0 {
			fail("C01: Transfer/TransferX pair %d disagrees after %s", i, op.desc)
		}
	}
	if refused && len(tr) != 0 {
		fail("C01: refused invocation %s emitted Transfer notifications", op.desc)
	}
	// replay of this transaction's Transfer stream on the pre-state must give the post-state
	model := map[string]*big.Int{}
	for k, a := range pre.accs {
		model[k] = new(big.Int).Set(a.Balance)
	}
	get := func(k string) *big.Int {
		if _, ok := model[k]; !ok {
			model[k] = big.NewInt(0)
		}
		return model[k]
	}
	for _, x := range tr {
		if len(x.from) == 20 {
			get(hex(x.from)).Sub(get(hex(x.from)), x.amount)
		}
		if len(x.to) == 20 {
			get(hex(x.to)).Add(get(hex(x.to)), x.amount)
		}
	}
	keys := map[string]bool{}
	for k := range model {
		keys[k] = true
	}
	for k := range post.accs {
		keys[k] = true
	}
	for k := range keys {
		m := big.NewInt(0)
		if v, ok := model[k]; ok {
			m = v
		}
		p := big.NewInt(0)
		if a, ok := post.accs[k]; ok {
			p = a.Balance
		}
		if m.Cmp(p) != 0 {
			fail("C01: balance of %s is %v but the notification stream implies %v after %s", k, p, m, op.desc)
		}
	}
}

// checkC02 checks the statement of C02 for one persisted invocation.
func (w *balWorld) checkC02(pre, post *balState, o *chainkit.Outcome, op *balOp) {
	alpha := op.signedBy(w.c.Alphabet.ScriptHash())
	for k, a := range pre.accs {
		p := big.NewInt(0)
		if pa, ok := post.accs[k]; ok {
			p = pa.Balance
		}
		if p.Cmp(a.Balance) >= 0 {
			continue
		}
		var u util.Uint160
		b, _ := hexDecode(k)
		copy(u[:], b)
		if alpha || op.signedBy(u) || (op.viaActor && u == w.actor) {
			continue
		}
		fail("C02: balance of %s fell %v -> %v in %s although neither it nor the Alphabet authorised the transaction", w.name(b), a.Balance, p, op.desc)
	}
	// accounts absent before cannot fall below zero without being caught by C01;
	// still, a negative appearance is a debit.
	for k, a := range post.accs {
		if _, ok := pre.accs[k]; !ok && a.Balance.Sign() < 0 {
			b, _ := hexDecode(k)
			var u util.Uint160
			copy(u[:], b)
			if !(alpha || op.signedBy(u) || (op.viaActor && u == w.actor)) {
				fail("C02: account %s was debited below zero in %s without authorisation", w.name(b), op.desc)
			}
		}
	}
	if op.kind == "transfer" && o.Halt {
		if b, ok := o.Bool(); ok && !b {
			if !sameRaw(pre.raw, post.raw) {
				fail("C02: transfer reported false but changed storage: %s", op.desc)
			}
			for _, e := range o.Events {
				if e.ScriptHash == w.bal {
					fail("C02: transfer reported false but emitted %s: %s", e.Name, op.desc)
				}
			}
		}
	}
}

func hexDecode(s string) ([]byte, error) {
	b := make([]byte, len(s)/2)
	_, err := fmt.Sscanf(s, "%x", &b)
	return b, err
}

// do persists one invocation and returns pre/post state.
func (w *balWorld) do(op *balOp, h util.Uint160, method string, args ...any) (*balState, *balState, *chainkit.Outcome) {
	pre := w.state()
	var o *chainkit.Outcome
	if op.viaActor {
		o = w.c.Invoke(op.signers, w.actor, "call", h, method, args)
	} else {
		o = w.c.Invoke(op.signers, h, method, args...)
	}
	post := w.state()
	w.h.Op("%s -> %s", op.desc, o)
	return pre, post, o
}

// ---------------------------------------------------------------------------
// generators

func (w *balWorld) signerPool() []neotest.Signer {
	p := []neotest.Signer{w.users[0], w.users[1], w.users[2], w.c.Alphabet}
	if w.c.Committee.ScriptHash() != w.c.Alphabet.ScriptHash() {
		p = append(p, w.c.Committee, w.c.Member(0))
	}
	if w.c.FormerAlphabet != nil {
		p = append(p, w.c.FormerAlphabet)
		if w.c.FormerCommittee.ScriptHash() != w.c.FormerAlphabet.ScriptHash() {
			p = append(p, w.c.FormerCommittee)
		}
		return p
	}
	if vh := w.c.Validators.ScriptHash(); vh != w.c.Alphabet.ScriptHash() && vh != w.c.Committee.ScriptHash() {
		p = append(p, w.c.Validators) // consensus nodes of a chain with fewer validators than committee members: not the Alphabet
	}
	return p
}

// addrPool lists 20-byte addresses of interest: users, actor, a never funded
// one, existing raw accounts (e.g. lock accounts).
func (w *balWorld) addrPool(s *balState) [][]byte {
	var res [][]byte
	for _, u := range w.users {
		res = append(res, u.ScriptHash().BytesBE())
	}
	res = append(res, w.actor.BytesBE())
	// the Balance contract's own address: an account like any other, which nobody can witness
	w.names[w.bal] = "balance-contract"
	res = append(res, w.bal.BytesBE())
	e := chainkit.NamedUser("bal-empty").ScriptHash()
	w.names[e] = "empty"
	res = append(res, e.BytesBE())
	// the all-zero address: twenty well-formed bytes, an account like any other
	w.names[util.Uint160{}] = "zero-address"
	res = append(res, util.Uint160{}.BytesBE())
	var extra []string
	for k := range s.accs {
		extra = append(extra, k)
	}
	sort.Strings(extra)
	for _, k := range extra {
		b, _ := hexDecode(k)
		dup := false
		for _, r := range res {
			if string(r) == string(b) {
				dup = true
			}
		}
		if !dup {
			res = append(res, b)
		}
	}
	return res
}

// amountFor draws an amount class relative to balance b (clamped to what a VM integer can hold).
func amountFor(rt *rapid.T, b *big.Int, label string) (*big.Int, string) {
	a, c := amountFor0(rt, b, label)
	lim := new(big.Int).Sub(pow2(255), bi(1))
	if a.Cmp(lim) > 0 {
		a = lim
	}
	if a.Cmp(new(big.Int).Neg(lim)) < 0 {
		a = new(big.Int).Neg(lim)
	}
	return a, c
}

func amountFor0(rt *rapid.T, b *big.Int, label string) (*big.Int, string) {
	classes := []string{"neg1", "negBig", "zero", "one", "eq", "eq-1", "eq+1", "over", "2^63", "2^255-1", "small", "-2^63"}
	c := rapid.SampledFrom(classes).Draw(rt, label)
	switch c {
	case "neg1":
		return bi(-1), c
	case "negBig":
		return new(big.Int).Neg(new(big.Int).Add(b, bi(7))), c
	case "zero":
		return bi(0), c
	case "one":
		return bi(1), c
	case "eq":
		return new(big.Int).Set(b), c
	case "eq-1":
		return new(big.Int).Sub(b, bi(1)), c
	case "eq+1":
		return new(big.Int).Add(b, bi(1)), c
	case "over":
		return new(big.Int).Add(new(big.Int).Mul(b, bi(2)), bi(5)), c
	case "2^63":
		return pow2(63), c
	case "2^255-1":
		return new(big.Int).Sub(pow2(255), bi(1)), c
	case "-2^63":
		return new(big.Int).Neg(pow2(63)), c
	default:
		return bi(int64(rapid.IntRange(2, 50).Draw(rt, label+"v"))), "small"
	}
}
