package props

import (
	"fmt"
	"sort"

	"github.com/nspcc-dev/neo-go/pkg/neotest"
	"github.com/nspcc-dev/neo-go/pkg/util"

	"verif/harness/chainkit"
)

// nnsRun couples the NNS contract with the ownership model.
type nnsRun struct {
	*nnsWorld
	m    *nnsModel
	prop string // property id used in failure messages
}

func newNnsRun(w *nnsWorld, prop string) *nnsRun {
	return &nnsRun{nnsWorld: w, m: newNnsModel(), prop: prop}
}

// who describes the signer set of a transaction.
type who struct {
	signers  []neotest.Signer
	viaActor bool // the entry script calls the actor contract which calls NNS
	desc     string
}

func (r *nnsRun) witnesses(w who) witnessSet {
	ws := witnessSet{hashes: map[string]bool{}}
	for _, s := range w.signers {
		ws.hashes[string(s.ScriptHash().BytesBE())] = true
		if s.ScriptHash() == r.c.Committee.ScriptHash() {
			ws.committee = true
		}
	}
	if w.viaActor {
		ws.hashes[string(r.actor.BytesBE())] = true
	}
	return ws
}

// invoke persists NNS.method(args) in a block with timestamp now+delta.
func (r *nnsRun) invoke(w who, delta int64, method string, args ...any) *chainkit.Outcome {
	if delta < 1 {
		delta = 1
	}
	if w.viaActor {
		return r.c.InvokeAt(uint64(delta), w.signers, r.actor, "call", r.nns, method, args)
	}
	return r.c.InvokeAt(uint64(delta), w.signers, r.nns, method, args...)
}

func (r *nnsRun) fail(format string, args ...any) {
	fail(r.prop+": "+format, args...)
}

// expect compares the observed outcome class with the expected one:
// "fault", "false", "true" or "halt" (any HALT).
func (r *nnsRun) expect(what string, o *chainkit.Outcome, want string) {
	got := "fault"
	if o.Halt {
		got = "halt"
		if b, ok := o.Bool(); ok {
			if b {
				got = "true"
			} else {
				got = "false"
			}
		}
	}
	if want == "halt" && o.Halt {
		return
	}
	if got != want {
		r.fail("%s: expected %s, got %s", what, want, o)
	}
}

// transfers extracts NNS Transfer notifications as "from>to:name".
func (r *nnsRun) transfers(o *chainkit.Outcome) []string {
	var res []string
	for _, e := range o.Events {
		if e.ScriptHash == r.nns && e.Name == "Transfer" {
			a := chainkit.ItemArr(e.Item)
			if len(a) != 4 || chainkit.ItemInt(a[2]) != 1 {
				r.fail("malformed Transfer notification %s", chainkit.ItemString(e.Item))
			}
			res = append(res, fmt.Sprintf("%x>%x:%s", chainkit.ItemBytes(a[0]), chainkit.ItemBytes(a[1]), chainkit.ItemBytes(a[3])))
		}
	}
	return res
}

func (r *nnsRun) expectTransfers(what string, o *chainkit.Outcome, want []string) {
	got := r.transfers(o)
	if !sameStrings(sorted(got), sorted(want)) {
		r.fail("%s: Transfer notifications %v, expected %v", what, got, want)
	}
}

// opRegisterTLD registers a TLD at now+delta.
func (r *nnsRun) opRegisterTLD(w who, delta int64, name string, expireSec int64) *chainkit.Outcome {
	t := int64(r.c.Now()) + max64(delta, 1)
	o := r.invoke(w, delta, "registerTLD", name, "tld@nspcc.io", int64(3600), int64(600), expireSec, int64(3600))
	what := fmt.Sprintf("registerTLD(%s,%ds) by %s at t=%d", name, expireSec, w.desc, t)
	r.h.Op("%s -> %s", what, o)
	ws := r.witnesses(w)
	ok := ws.committee && !(r.m.roots[name] && r.m.alive(name, t))
	if ok {
		r.expect(what, o, "halt")
		r.m.roots[name] = true
		r.m.names[name] = &nnsName{exp: t + expireSec*1000, tld: true}
		r.expectTransfers(what, o, nil)
	} else {
		r.expect(what, o, "fault")
	}
	return o
}

// opRegister registers a non-TLD name at now+delta.
func (r *nnsRun) opRegister(w who, delta int64, name string, owner util.Uint160, expireSec int64) *chainkit.Outcome {
	t := int64(r.c.Now()) + max64(delta, 1)
	o := r.invoke(w, delta, "register", name, owner, "mail@nspcc.io", int64(3600), int64(600), expireSec, int64(3600))
	what := fmt.Sprintf("register(%s, owner %s, %ds) by %s at t=%d", name, r.names[owner], expireSec, w.desc, t)
	r.h.Op("%s -> %s", what, o)
	ws := r.witnesses(w)
	m := r.m
	switch {
	case !m.roots[tldOf(name)], !m.parentsAlive(name, t):
		r.expect(what, o, "fault")
		return o
	case levelOf(name) > 2 && !m.names[parentOf(name)].isAdmin(ws):
		r.expect(what, o, "fault")
		r.h.Mark("register-refused-parent-auth")
		return o
	case !ws.has(owner.BytesBE()):
		r.expect(what, o, "fault")
		r.h.Mark("register-refused-owner-witness")
		return o
	}
	old, exists := m.names[name]
	if exists && t < old.exp {
		r.expect(what, o, "false")
		r.expectTransfers(what, o, nil)
		r.h.Mark("register-of-live-name")
		return o
	}
	r.expect(what, o, "true")
	from := ""
	if exists {
		from = fmt.Sprintf("%x", old.owner)
		r.h.Mark("takeover-of-expired-name")
		if string(old.owner) != string(owner.BytesBE()) {
			r.h.Mark("takeover-by-different-owner")
		}
		if t == old.exp {
			r.h.Mark("op-at-exact-expiration")
		}
	} else {
		m.supply++
	}
	m.names[name] = &nnsName{owner: owner.BytesBE(), exp: t + expireSec*1000}
	r.expectTransfers(what, o, []string{fmt.Sprintf("%s>%x:%s", from, owner.BytesBE(), name)})
	return o
}

// opTransfer transfers a name at now+delta.
func (r *nnsRun) opTransfer(w who, delta int64, name string, to util.Uint160) *chainkit.Outcome {
	t := int64(r.c.Now()) + max64(delta, 1)
	o := r.invoke(w, delta, "transfer", to, name, nil)
	what := fmt.Sprintf("transfer(%s -> %s) by %s at t=%d", name, r.names[to], w.desc, t)
	r.h.Op("%s -> %s", what, o)
	n, exists := r.m.names[name]
	if !exists || n.tld || t >= n.exp {
		r.expect(what, o, "fault")
		return o
	}
	if t == n.exp-1 {
		r.h.Mark("op-just-before-expiration")
	}
	ws := r.witnesses(w)
	if !ws.has(n.owner) {
		r.expect(what, o, "false")
		r.expectTransfers(what, o, nil)
		r.h.Mark("transfer-refused")
		return o
	}
	r.expect(what, o, "true")
	r.expectTransfers(what, o, []string{fmt.Sprintf("%x>%x:%s", n.owner, to.BytesBE(), name)})
	if string(n.owner) != string(to.BytesBE()) {
		n.owner = to.BytesBE()
		if n.admin != nil {
			r.h.Mark("transfer-cleared-admin")
		}
		n.admin = nil
		r.h.Mark("transfer-ok")
	} else {
		r.h.Mark("self-transfer")
	}
	return o
}

// opTransferAlias sends a transfer whose token id is another spelling of a name (trailing root dot, upper
// case). No such token exists: the call must either be refused without any change, or - if an
// implementation chose to canonicalise ids - be a complete, consistent transfer of the name itself,
// announced under the name. Everything in between shows up in the read API compared after the step.
func (r *nnsRun) opTransferAlias(w who, delta int64, name, spelled string, to util.Uint160) *chainkit.Outcome {
	t := int64(r.c.Now()) + max64(delta, 1)
	o := r.invoke(w, delta, "transfer", to, spelled, nil)
	what := fmt.Sprintf("transfer(%q -> %s) by %s at t=%d", spelled, r.names[to], w.desc, t)
	r.h.Op("%s -> %s", what, o)
	r.h.Mark("transfer-with-another-spelling-of-the-id")
	n, exists := r.m.names[name]
	if b, ok := o.Bool(); !o.Halt || !ok || !b {
		r.expectTransfers(what, o, nil)
		return o
	}
	if !exists || n.tld || t >= n.exp || !r.witnesses(w).has(n.owner) {
		r.fail("%s succeeded although %s is not a live name of the signer", what, name)
	}
	r.expectTransfers(what, o, []string{fmt.Sprintf("%x>%x:%s", n.owner, to.BytesBE(), name)})
	if string(n.owner) != string(to.BytesBE()) {
		n.owner = to.BytesBE()
		n.admin = nil
	}
	return o
}

// opTransferForward transfers a name to a contract that, from its payment callback, transfers it on to
// final (it owns the token at that moment, so it may): two ownership changes in one transaction, each
// announced once, and the read API must show final as the owner with every index updated.
func (r *nnsRun) opTransferForward(w who, delta int64, name string, probe, final util.Uint160) *chainkit.Outcome {
	n, exists := r.m.names[name]
	t0 := int64(r.c.Now()) + 1 + max64(delta, 1)
	will := exists && !n.tld && t0 < n.exp && r.witnesses(w).has(n.owner) && string(n.owner) != string(probe.BytesBE())
	cnt := int64(0)
	if will {
		cnt = 1
	}
	if o := r.c.Invoke(nil, probe, "arm", r.nns, "transfer", []any{final, name, nil}, cnt); !o.Halt {
		panic(chainkit.HarnessError{Msg: "nns driver: arming the forwarding probe: " + o.Fault})
	}
	if !will {
		return r.opTransfer(w, delta, name, probe)
	}
	t := int64(r.c.Now()) + max64(delta, 1)
	o := r.invoke(w, delta, "transfer", probe, name, nil)
	what := fmt.Sprintf("transfer(%s -> a contract that forwards it to %s) by %s at t=%d", name, r.names[final], w.desc, t)
	r.h.Op("%s -> %s", what, o)
	r.expect(what, o, "true")
	r.expectTransfers(what, o, []string{fmt.Sprintf("%x>%x:%s", n.owner, probe.BytesBE(), name), fmt.Sprintf("%x>%x:%s", probe.BytesBE(), final.BytesBE(), name)})
	n.owner = final.BytesBE()
	n.admin = nil
	r.h.Mark("transfer-forwarded-by-the-receiving-contract")
	return o
}

// opRegisterForward: a contract registers a name for itself (it is the caller, so it "witnesses" the owner) and, from
// the payment callback of that registration, transfers the name on to final. Returns false when the model does not
// predict a plain success (the caller then falls back to an ordinary registration).
func (r *nnsRun) opRegisterForward(w who, delta int64, name string, probe, final util.Uint160, expireSec int64) bool {
	t := int64(r.c.Now()) + 1 + max64(delta, 1) // (arming the probe takes one block of one millisecond)
	m := r.m
	ws := r.witnesses(w)
	if !m.roots[tldOf(name)] || !m.parentsAlive(name, t) || (levelOf(name) > 2 && !m.names[parentOf(name)].isAdmin(ws)) || w.viaActor {
		return false
	}
	old, exists := m.names[name]
	if exists && t < old.exp {
		return false
	}
	if o := r.c.Invoke(nil, probe, "arm", r.nns, "transfer", []any{final, name, nil}, int64(1)); !o.Halt {
		panic(chainkit.HarnessError{Msg: "nns driver: arming the forwarding probe: " + o.Fault})
	}
	o := r.c.InvokeAt(uint64(max64(delta, 1)), w.signers, probe, "call", r.nns, "register", []any{name, probe, "mail@nspcc.io", int64(3600), int64(600), expireSec, int64(3600)})
	what := fmt.Sprintf("register(%s, %ds) by a contract for itself that forwards the name to %s from its payment callback, sent by %s at t=%d", name, expireSec, r.names[final], w.desc, t)
	r.h.Op("%s -> %s", what, o)
	r.expect(what, o, "true")
	from := ""
	if exists {
		from = fmt.Sprintf("%x", old.owner)
	} else {
		m.supply++
	}
	r.expectTransfers(what, o, []string{fmt.Sprintf("%s>%x:%s", from, probe.BytesBE(), name), fmt.Sprintf("%x>%x:%s", probe.BytesBE(), final.BytesBE(), name)})
	m.names[name] = &nnsName{owner: final.BytesBE(), exp: t + expireSec*1000}
	r.h.Mark("registration-forwarded-by-the-registering-contract")
	return true
}

const tenYearsMs = 10 * msPerYear

// opRenew renews at now+delta.
func (r *nnsRun) opRenew(w who, delta int64, name string, years int64) *chainkit.Outcome {
	t := int64(r.c.Now()) + max64(delta, 1)
	o := r.invoke(w, delta, "renew", name, years)
	what := fmt.Sprintf("renew(%s, %d years) by %s at t=%d", name, years, w.desc, t)
	r.h.Op("%s -> %s", what, o)
	n, exists := r.m.names[name]
	ws := r.witnesses(w)
	if years < 1 || years > 10 || !exists || !r.m.chainAlive(name, t) || !n.isAdmin(ws) {
		r.expect(what, o, "fault")
		return o
	}
	newExp := n.exp + years*msPerYear
	if !n.tld && newExp > t+tenYearsMs {
		r.expect(what, o, "fault")
		r.h.Mark("renew-beyond-ten-years-refused")
		return o
	}
	v, ok := o.Int()
	if !o.Halt || !ok || v != newExp {
		r.fail("%s: expected new expiration %d, got %s", what, newExp, o)
	}
	renew := 0
	for _, e := range o.Events {
		if e.ScriptHash == r.nns && e.Name == "Renew" {
			renew++
			a := chainkit.ItemArr(e.Item)
			if string(chainkit.ItemBytes(a[0])) != name || chainkit.ItemInt(a[1]) != n.exp || chainkit.ItemInt(a[2]) != newExp {
				r.fail("%s: Renew notification %s", what, chainkit.ItemString(e.Item))
			}
		}
	}
	if renew != 1 {
		r.fail("%s: %d Renew notifications", what, renew)
	}
	n.exp = newExp
	r.h.Mark("renew-ok")
	return o
}

// opSetAdmin appoints (or clears, admin == nil) an admin at now+delta.
func (r *nnsRun) opSetAdmin(w who, delta int64, name string, admin *util.Uint160) *chainkit.Outcome {
	t := int64(r.c.Now()) + max64(delta, 1)
	var arg any
	var ab []byte
	an := "nil"
	if admin != nil {
		arg = *admin
		ab = admin.BytesBE()
		an = r.names[*admin]
	}
	o := r.invoke(w, delta, "setAdmin", name, arg)
	what := fmt.Sprintf("setAdmin(%s, %s) by %s at t=%d", name, an, w.desc, t)
	r.h.Op("%s -> %s", what, o)
	n, exists := r.m.names[name]
	ws := r.witnesses(w)
	if !exists || n.tld || !r.m.chainAlive(name, t) || (admin != nil && !ws.has(ab)) || !ws.has(n.owner) {
		r.expect(what, o, "fault")
		return o
	}
	r.expect(what, o, "halt")
	n.admin = ab
	r.h.Mark("setAdmin-ok")
	return o
}

func max64(a, b int64) int64 {
	if a > b {
		return a
	}
	return b
}

// readAccounting compares totalSupply / balanceOf / tokensOf with the model.
func (r *nnsRun) readAccounting(owners []util.Uint160, what string) {
	if v, ok := r.call(nil, "totalSupply").Int(); !ok || v != int64(r.m.supply) {
		r.fail("totalSupply() = %d, %d non-TLD names were ever registered (%s)", v, r.m.supply, what)
	}
	sum := 0
	for _, o := range owners {
		want := r.m.tokensOf(o.BytesBE())
		sum += len(want)
		if v, ok := r.call(nil, "balanceOf", o).Int(); !ok || v != int64(len(want)) {
			r.fail("balanceOf(%s) = %d, model %d (%s)", r.names[o], v, len(want), what)
		}
		out := r.call(nil, "tokensOf", o)
		arr, ok := out.Array()
		if !ok {
			r.fail("tokensOf(%s) failed: %s", r.names[o], out)
		}
		var got []string
		for _, it := range arr {
			got = append(got, string(chainkit.ItemBytes(it)))
		}
		sort.Strings(got)
		if !sameStrings(got, want) {
			r.fail("tokensOf(%s) = %v, expected %v (%s)", r.names[o], got, want, what)
		}
	}
	if sum != r.m.supply {
		r.fail("model inconsistency: %d owned names, supply %d", sum, r.m.supply)
	}
}

// readName checks isAvailable / ownerOf / properties of name at time t.
func (r *nnsRun) readName(name string, t int64, what string) {
	m := r.m
	n, exists := m.names[name]
	// isAvailable
	av := r.c.CallAt(uint64(t), nil, r.nns, "isAvailable", name)
	switch {
	case levelOf(name) > 1 && !m.roots[tldOf(name)]:
		if av.Halt {
			r.fail("isAvailable(%s) at t=%d answered %s although its TLD does not exist (%s)", name, t, av, what)
		}
	case m.chainAlive(name, t):
		if b, ok := av.Bool(); !ok || b {
			r.fail("isAvailable(%s) at t=%d = %s, but the name is registered until %d (%s)", name, t, av, n.exp, what)
		}
	case exists && t < n.exp:
		// the name itself is unexpired but a parent is not: statement is silent
		r.h.Mark("ambiguous:available-under-expired-parent")
	default:
		if b, ok := av.Bool(); !ok || !b {
			r.fail("isAvailable(%s) at t=%d = %s, but the name is not registered or expired (exp %v) (%s)", name, t, av, expOf(n), what)
		}
	}
	if levelOf(name) == 1 {
		return
	}
	// ownerOf / properties
	ow := r.c.CallAt(uint64(t), nil, r.nns, "ownerOf", name)
	pr := r.c.CallAt(uint64(t), nil, r.nns, "properties", name)
	if m.chainAlive(name, t) {
		if b, ok := ow.Bytes(); !ok || !ow.Halt || string(b) != string(n.owner) {
			r.fail("ownerOf(%s) at t=%d = %s, expected %x (%s)", name, t, ow, n.owner, what)
		}
		if !pr.Halt {
			r.fail("properties(%s) at t=%d failed: %s (%s)", name, t, pr.Fault, what)
		}
		want := fmt.Sprintf("{x%s:i%d,x%s:x%s,x%s:%s}", hex([]byte("expiration")), n.exp, hex([]byte("name")), hex([]byte(name)), hex([]byte("admin")), nullOr(n.admin))
		if got := chainkit.ItemString(pr.Top()); got != canonMap(want) {
			r.fail("properties(%s) at t=%d = %s, expected %s (%s)", name, t, got, canonMap(want), what)
		}
	} else {
		if ow.Halt {
			r.fail("ownerOf(%s) at t=%d answered %s although the name or a parent is missing/expired (%s)", name, t, ow, what)
		}
		if pr.Halt {
			r.fail("properties(%s) at t=%d answered although the name or a parent is missing/expired (%s)", name, t, what)
		}
	}
}

func expOf(n *nnsName) any {
	if n == nil {
		return "none"
	}
	return n.exp
}

func nullOr(b []byte) string {
	if b == nil {
		return "null"
	}
	return "x" + hex(b)
}

// canonMap sorts the entries of a "{k:v,...}" rendering the way ItemString does.
func canonMap(s string) string {
	inner := s[1 : len(s)-1]
	parts := splitTop(inner)
	sort.Strings(parts)
	out := "{"
	for i, p := range parts {
		if i > 0 {
			out += ","
		}
		out += p
	}
	return out + "}"
}

func splitTop(s string) []string {
	var res []string
	depth, start := 0, 0
	for i := 0; i < len(s); i++ {
		switch s[i] {
		case '{', '[':
			depth++
		case '}', ']':
			depth--
		case ',':
			if depth == 0 {
				res = append(res, s[start:i])
				start = i + 1
			}
		}
	}
	return append(res, s[start:])
}
