package props

import (
	"fmt"
	"github.com/nspcc-dev/neo-go/pkg/core/transaction"
	"math/big"
	"sort"
	"testing"

	"github.com/nspcc-dev/neo-go/pkg/neotest"
	"pgregory.net/rapid"

	"verif/harness/chainkit"
	"verif/harness/ev"
)

// lockModel is the reference model of C09: plain balances plus lock metadata.
type lockModel struct {
	bal    map[string]*big.Int
	locks  map[string]*lockInfo // hex(lock account) -> info; present while the account exists
	supply *big.Int
	gone   map[string]bool // lock accounts that must have disappeared
}

type lockInfo struct {
	parent []byte
	until  int64
}

func (m *lockModel) get(a []byte) *big.Int {
	k := hex(a)
	if _, ok := m.bal[k]; !ok {
		m.bal[k] = big.NewInt(0)
	}
	return m.bal[k]
}

// move applies a successful transfer of amt from -> to (either may be nil for
// mint/burn) with the contract's documented "emptied account disappears" rule.
func (m *lockModel) move(from, to []byte, amt *big.Int) {
	if len(from) == 20 {
		b := m.get(from)
		b.Sub(b, amt)
		if b.Sign() == 0 {
			if _, ok := m.locks[hex(from)]; ok {
				delete(m.locks, hex(from))
				m.gone[hex(from)] = true
			}
		}
	}
	if len(to) == 20 {
		b := m.get(to)
		b.Add(b, amt)
	}
}

// release returns the locks due at epoch e, in a deterministic order.
func (m *lockModel) due(e int64) []string {
	var res []string
	for k, l := range m.locks {
		if e >= l.until {
			res = append(res, k)
		}
	}
	sort.Strings(res)
	return res
}

func TestC09Stateful(t *testing.T) {
	theT = t
	col := ev.New("C09", "stateful",
		"rapid state machine (starting at epoch 0, 126, 254, 65534 or 2^24) over mint/lock (one in five from a live lock account: chains of locks)/burn/transferX/transfer/netmap tick/direct newEpoch with until in {cur-1,cur,cur+1,cur+2,cur+5}, zero/partial/full amounts and shared until values; full balance+lock model compared with the raw account scan, supply and unlock notifications after every step; non-trivial = a tick released a lock AND the history also has a partial burn of a lock, a tick that left a pending lock alone, or >=2 locks released by one tick",
		"lock targets are fresh addresses", "lock until >= 1 (0 is the contract's not-a-lock marker; the Inner Ring never produces it)",
		"locks due at one tick are released in the key order of their accounts (the order in which the platform iterates storage); it matters only for a chain of locks whose links are due at the same tick", "epoch ticks reach Balance through Netmap's subscriber fan-out or by the Alphabet calling Balance.newEpoch directly")
	runRapid(t, col, func(rt *rapid.T, h *ev.History) {
		n := rapid.SampledFrom([]int{1, 1, 3}).Draw(rt, "n")
		drawValidators(rt, h, n)
		w := newBalWorld(n, h)
		defer w.close()
		alpha := []neotest.Signer{w.c.Alphabet}
		// the history may start at an epoch whose number needs two or three bytes (until values follow it)
		if e0 := rapid.SampledFrom([]int64{0, 0, 0, 126, 254, 65534, 1 << 24}).Draw(rt, "startEpoch"); e0 > 0 {
			if o := w.c.Invoke(alpha, w.netmap, "newEpoch", e0); !o.Halt {
				fail("C09: tick to epoch %d on a fresh network failed: %s", e0, o)
			}
			w.epoch = e0
			h.Op("the network starts at epoch %d", e0)
			h.Mark("large-epoch-numbers")
		}
		m := &lockModel{bal: map[string]*big.Int{}, locks: map[string]*lockInfo{}, supply: big.NewInt(0), gone: map[string]bool{}}
		users := [][]byte{w.users[0].ScriptHash().BytesBE(), w.users[1].ScriptHash().BytesBE(), w.users[2].ScriptHash().BytesBE()}
		var lockAddrs [][]byte

		compare := func(what string) {
			st := w.state()
			if st.supply.Cmp(m.supply) != 0 {
				fail("C09: supply %v, model %v after %s", st.supply, m.supply, what)
			}
			keys := map[string]bool{}
			for k := range st.accs {
				keys[k] = true
			}
			for k := range m.bal {
				keys[k] = true
			}
			for k := range keys {
				b, _ := hexDecode(k)
				want := big.NewInt(0)
				if v, ok := m.bal[k]; ok {
					want = v
				}
				if st.bal(b).Cmp(want) != 0 {
					fail("C09: balance of %s is %v, model says %v after %s", w.name(b), st.bal(b), want, what)
				}
			}
			for k, l := range m.locks {
				a, ok := st.accs[k]
				b, _ := hexDecode(k)
				if !ok {
					fail("C09: lock account %s vanished although it is neither due nor emptied, after %s", w.name(b), what)
				}
				if a.Until != l.until || string(a.Parent) != string(l.parent) {
					fail("C09: lock account %s lost its metadata (until %d parent %x) after %s", w.name(b), a.Until, a.Parent, what)
				}
			}
			for k := range m.gone {
				if _, ok := st.accs[k]; ok {
					b, _ := hexDecode(k)
					fail("C09: lock account %s still exists in storage after it was released or emptied (%s)", w.name(b), what)
				}
			}
		}

		// unlock notifications of one tick
		checkUnlocks := func(o *chainkit.Outcome, due []string, remaining map[string]*big.Int, what string) {
			_, trx := parseXfers(o.Events, w.bal)
			seen := map[string]int{}
			for _, x := range trx {
				if len(x.details) > 0 && x.details[0] == 0x04 {
					seen[hex(x.from)]++
					l := remaining[hex(x.from)]
					if l == nil {
						fail("C09: unlock notification for %s which is not due (%s)", w.name(x.from), what)
					}
					if x.amount.Cmp(l) != 0 {
						fail("C09: unlock of %s returned %v, remaining balance was %v (%s)", w.name(x.from), x.amount, l, what)
					}
				}
			}
			for _, k := range due {
				if seen[k] != 1 {
					b, _ := hexDecode(k)
					fail("C09: lock %s due at this tick was announced %d times (%s)", w.name(b), seen[k], what)
				}
			}
		}

		applyRelease := func(e int64) ([]string, map[string]*big.Int) {
			due := m.due(e)
			rem := map[string]*big.Int{}
			for _, k := range due {
				b, _ := hexDecode(k)
				l := m.locks[k]
				amt := new(big.Int).Set(m.get(b))
				rem[k] = amt
				delete(m.locks, k)
				m.gone[k] = true
				m.get(b).SetInt64(0)
				pb := m.get(l.parent)
				pb.Add(pb, amt)
				if m.gone[hex(l.parent)] {
					// the source was itself a lock account that is gone by now (released earlier in this very tick - accounts
					// are visited in key order - or before): the funds return to its address all the same, as a plain account
					delete(m.gone, hex(l.parent))
					h.Mark("returned-to-a-released-outer-lock")
				} else if _, outer := m.locks[hex(l.parent)]; outer {
					h.Mark("returned-to-a-live-outer-lock")
				}
			}
			return due, rem
		}

		steps := rapid.IntRange(3, 30).Draw(rt, "steps")
		// start funded
		for i, u := range users {
			amt := bi(int64(100 * (i + 1)))
			o := w.c.Invoke(alpha, w.bal, "mint", u, amt, []byte("init"))
			if !o.Halt {
				fail("C09: initial mint failed: %s", o)
			}
			m.move(nil, u, amt)
			m.supply.Add(m.supply, amt)
		}
		compare("initial mints")
		for i := 0; i < steps; i++ {
			kind := rapid.SampledFrom([]string{"lock", "lock", "lock", "burn", "burn", "transferX", "mint", "transfer", "tick", "tick", "tick", "direct"}).Draw(rt, "kind")
			switch kind {
			case "mint":
				u := rapid.SampledFrom(users).Draw(rt, "to")
				amt := bi(int64(rapid.IntRange(1, 50).Draw(rt, "amt")))
				o := w.c.Invoke(alpha, w.bal, "mint", u, amt, []byte("m"))
				h.Op("mint(%s,%v) -> %s", w.name(u), amt, o)
				if !o.Halt {
					fail("C09: mint refused: %s", o)
				}
				m.move(nil, u, amt)
				m.supply.Add(m.supply, amt)
			case "lock":
				from := rapid.SampledFrom(users).Draw(rt, "from")
				// one lock in five takes its funds from a live lock account (a chain of locks): the inner one returns to the
				// outer one, which returns what it then holds to its own source
				if rapid.IntRange(0, 4).Draw(rt, "fromALockAccount") == 0 {
					var live []string
					for k := range m.locks {
						kb, _ := hexDecode(k)
						if m.get(kb).Sign() > 0 {
							live = append(live, k)
						}
					}
					sort.Strings(live)
					if len(live) > 0 {
						from, _ = hexDecode(rapid.SampledFrom(live).Draw(rt, "outerLock"))
						h.Mark("lock-from-a-lock-account")
					}
				}
				b := m.get(from)
				cls := rapid.SampledFrom([]string{"zero", "one", "half", "all", "all+1"}).Draw(rt, "amtClass")
				var amt *big.Int
				switch cls {
				case "zero":
					amt = bi(0)
				case "one":
					amt = bi(1)
				case "half":
					amt = new(big.Int).Div(b, bi(2))
				case "all":
					amt = new(big.Int).Set(b)
				default:
					amt = new(big.Int).Add(b, bi(1))
				}
				until := w.epoch + int64(rapid.SampledFrom([]int{-1, 0, 1, 1, 2, 2, 5}).Draw(rt, "untilDelta"))
				if until < 1 {
					until = 1
				}
				to := w.freshAddr()
				o := w.c.Invoke(alpha, w.bal, "lock", []byte("d"), from, to, amt, until)
				h.Op("lock(%s->%s,%v,until=%d) at epoch %d -> %s", w.name(from), w.name(to.BytesBE()), amt, until, w.epoch, o)
				if b.Cmp(amt) < 0 {
					if o.Halt {
						fail("C09: lock of %v from balance %v succeeded", amt, b)
					}
					break
				}
				if !o.Halt {
					fail("C09: valid lock refused: %s", o)
				}
				m.locks[hex(to.BytesBE())] = &lockInfo{parent: from, until: until}
				m.move(from, to.BytesBE(), amt)
				lockAddrs = append(lockAddrs, to.BytesBE())
				h.Mark("lock")
				if len(chainkit.EventsNamed(o.Events, "Lock")) != 1 {
					fail("C09: successful lock emitted %d Lock notifications", len(chainkit.EventsNamed(o.Events, "Lock")))
				}
			case "burn":
				pool := append(append([][]byte{}, users...), lockAddrs...)
				from := rapid.SampledFrom(pool).Draw(rt, "from")
				b := m.get(from)
				cls := rapid.SampledFrom([]string{"one", "half", "all", "all+1", "zero"}).Draw(rt, "amtClass")
				var amt *big.Int
				switch cls {
				case "one":
					amt = bi(1)
				case "half":
					amt = new(big.Int).Div(b, bi(2))
				case "all":
					amt = new(big.Int).Set(b)
				case "zero":
					amt = bi(0)
				default:
					amt = new(big.Int).Add(b, bi(1))
				}
				_, isLock := m.locks[hex(from)]
				o := w.c.Invoke(alpha, w.bal, "burn", from, amt, []byte("b"))
				h.Op("burn(%s,%v) -> %s", w.name(from), amt, o)
				if b.Cmp(amt) < 0 {
					if o.Halt {
						fail("C09: burn of %v from balance %v succeeded", amt, b)
					}
					break
				}
				if !o.Halt {
					fail("C09: valid burn refused: %s", o)
				}
				if isLock && amt.Sign() > 0 && amt.Cmp(b) < 0 {
					h.Mark("partial-burn-of-lock")
				}
				if isLock && amt.Sign() > 0 && amt.Cmp(b) == 0 {
					h.Mark("full-burn-of-lock")
				}
				m.move(from, nil, amt)
				m.supply.Sub(m.supply, amt)
			case "transferX":
				pool := append(append([][]byte{}, users...), lockAddrs...)
				from := rapid.SampledFrom(pool).Draw(rt, "from")
				to := rapid.SampledFrom(pool).Draw(rt, "to")
				b := m.get(from)
				amt := bi(int64(rapid.IntRange(0, 60).Draw(rt, "amt")))
				if _, wasLock := m.gone[hex(to)]; wasLock || string(from) == string(to) {
					// a released lock address is not a sensible destination, and the Inner Ring
					// never transfers an account to itself: outside the generated domain
					break
				}
				o := w.c.Invoke(alpha, w.bal, "transferX", from, to, amt, []byte("x"))
				h.Op("transferX(%s->%s,%v) -> %s", w.name(from), w.name(to), amt, o)
				if b.Cmp(amt) < 0 {
					if o.Halt {
						fail("C09: transferX of %v from balance %v succeeded", amt, b)
					}
					break
				}
				if !o.Halt {
					fail("C09: valid transferX refused: %s", o)
				}
				m.move(from, to, amt)
			case "transfer":
				// public transfer by a user (with its witness) or an attempt on a lock account (without)
				pool := append(append([][]byte{}, users...), lockAddrs...)
				from := rapid.SampledFrom(pool).Draw(rt, "from")
				to := rapid.SampledFrom(users).Draw(rt, "to")
				amt := bi(int64(rapid.IntRange(1, 40).Draw(rt, "amt")))
				var signers []neotest.Signer
				authorised := false
				for i, u := range users {
					if string(u) == string(from) {
						signers = append(signers, w.users[i])
						authorised = true
					}
				}
				if !authorised {
					signers = append(signers, w.users[0])
				}
				b := m.get(from)
				o := w.c.Invoke(signers, w.bal, "transfer", from, to, amt, nil)
				h.Op("transfer(%s->%s,%v) signers=%s -> %s", w.name(from), w.name(to), amt, sig(signers, w.names), o)
				res, ok := o.Bool()
				if !o.Halt || !ok {
					fail("C09: transfer faulted: %s", o)
				}
				if res != (authorised && b.Cmp(amt) >= 0) {
					fail("C09: transfer returned %v (authorised=%v balance=%v amount=%v)", res, authorised, b, amt)
				}
				if res && string(from) != string(to) {
					m.move(from, to, amt)
				}
			case "tick":
				e := w.epoch + int64(rapid.SampledFrom([]int{-1, 0, 1, 1, 1, 2, 4}).Draw(rt, "epochDelta"))
				// one tick in five carries the Alphabet's witness with scope CalledByEntry: valid in Netmap, not in Balance
				// (called by Netmap). Such a tick may be refused as a whole; if it is applied, it is a tick like any other
				scoped := rapid.IntRange(0, 4).Draw(rt, "calledByEntry") == 0
				if scoped {
					w.c.NextScope = transaction.CalledByEntry
				}
				o := w.c.Invoke(alpha, w.netmap, "newEpoch", e)
				h.Op("netmap.newEpoch(%d) at epoch %d calledByEntry=%v -> %s", e, w.epoch, scoped, o)
				if e <= w.epoch {
					if o.Halt {
						fail("C09: tick to epoch %d from %d succeeded", e, w.epoch)
					}
					break
				}
				if scoped && !o.Halt {
					if got, _ := w.c.Call(nil, w.netmap, "epoch").Int(); got != w.epoch {
						fail("C09: a refused tick moved the epoch from %d to %d", w.epoch, got)
					}
					h.Mark("scoped-tick-refused")
					break
				}
				if !o.Halt {
					fail("C09: tick refused: %s", o)
				}
				w.epoch = e
				pendingBefore := len(m.locks)
				due, rem := applyRelease(e)
				checkUnlocks(o, due, rem, fmt.Sprintf("tick %d", e))
				if len(due) > 0 {
					h.Mark("released-by-tick")
				}
				if len(due) >= 2 {
					h.Mark("simultaneous-release")
				}
				if pendingBefore > len(due) {
					h.Mark("tick-left-pending-lock")
				}
			case "direct":
				e := int64(rapid.IntRange(0, int(w.epoch)+6).Draw(rt, "epoch"))
				o := w.c.Invoke(alpha, w.bal, "newEpoch", e)
				h.Op("balance.newEpoch(%d) -> %s", e, o)
				if !o.Halt {
					fail("C09: direct newEpoch by the Alphabet refused: %s", o)
				}
				pendingBefore := len(m.locks)
				due, rem := applyRelease(e)
				checkUnlocks(o, due, rem, fmt.Sprintf("direct newEpoch %d", e))
				if len(due) > 0 {
					h.Mark("released-by-tick")
				}
				if len(due) >= 2 {
					h.Mark("simultaneous-release")
				}
				if pendingBefore > len(due) {
					h.Mark("tick-left-pending-lock")
				}
			}
			compare(fmt.Sprintf("step %d (%s)", i, kind))
		}
		if h.Has("released-by-tick") && (h.Has("partial-burn-of-lock") || h.Has("tick-left-pending-lock") || h.Has("simultaneous-release")) {
			h.NonTrivial()
		}
	})
}
