package props

import (
	"fmt"

	"github.com/nspcc-dev/neo-go/pkg/neotest"
	"github.com/nspcc-dev/neo-go/pkg/util"

	"verif/harness/chainkit"
	"verif/harness/ev"
)

const (
	recA     = int64(1)
	recCNAME = int64(5)
	recSOA   = int64(6)
	recTXT   = int64(16)
	recAAAA  = int64(28)

	msPerYear = int64(365 * 24 * 3600 * 1000)
)

// nnsWorld is the NNS fixture shared by C10, C11, C12 and C18: a chain with
// the NNS contract only.
type nnsWorld struct {
	c         *chainkit.Chain
	nns       util.Uint160
	h         *ev.History
	users     []neotest.SingleSigner
	names     map[util.Uint160]string
	committee []neotest.Signer
	actor     util.Uint160
}

func newNnsWorld(n int, h *ev.History, tlds ...string) *nnsWorld {
	c := chainkit.NewChain(theT, n, chainkit.Options{Validators: takeValidators()})
	w := &nnsWorld{c: c, h: h, names: map[util.Uint160]string{}, committee: []neotest.Signer{c.Committee}}
	var data any
	if len(tlds) > 0 {
		set := make([]any, len(tlds))
		for i := range tlds {
			set[i] = []any{tlds[i], "tld@nspcc.io"}
		}
		data = []any{set}
	}
	o, hsh := c.DeployWith(c.Both(), chainkit.Contract("nns"), data)
	if !o.Halt {
		fail("nns fixture: deploy: %s", o)
	}
	w.nns = hsh
	for i := 0; i < 3; i++ {
		u := chainkit.NamedUser(fmt.Sprintf("nns-user-%d", i))
		w.users = append(w.users, u)
		w.names[u.ScriptHash()] = fmt.Sprintf("u%d", i)
	}
	w.names[c.Committee.ScriptHash()] = "committee"
	return w
}

func (w *nnsWorld) close() { w.c.Close() }

// withActor deploys the contract account.
func (w *nnsWorld) withActor() {
	w.actor = w.c.Deploy(chainkit.Probe("actor", ""), nil)
	w.names[w.actor] = "actor"
}

func (w *nnsWorld) call(signers []neotest.Signer, method string, args ...any) *chainkit.Outcome {
	return w.c.Call(signers, w.nns, method, args...)
}

// register commits a registration with standard SOA parameters; expire is in seconds.
func (w *nnsWorld) register(signers []neotest.Signer, name string, owner util.Uint160, expire int64) *chainkit.Outcome {
	return w.c.Invoke(signers, w.nns, "register", name, owner, "mail@nspcc.io", int64(3600), int64(600), expire, int64(3600))
}

func (w *nnsWorld) registerTLD(name string, expire int64) *chainkit.Outcome {
	return w.c.Invoke(w.committee, w.nns, "registerTLD", name, "tld@nspcc.io", int64(3600), int64(600), expire, int64(3600))
}

const hundredYearsSec = int64(100 * 365 * 24 * 3600)
