package props

import (
	"bytes"
	"crypto/sha256"
	"fmt"
	"math/big"
	"sort"
	"testing"

	"github.com/nspcc-dev/neo-go/pkg/crypto/keys"
	"github.com/nspcc-dev/neo-go/pkg/neotest"
	"github.com/nspcc-dev/neo-go/pkg/util"
	"github.com/nspcc-dev/neo-go/pkg/vm/stackitem"
	"pgregory.net/rapid"

	"verif/harness/chainkit"
	"verif/harness/ev"
)

var c20Epochs = []int64{0, 1, 2, 127, 128, 255, 256, 257, 513, 65535, 65536, 65537}

// leInt is the VM's minimal little-endian two's complement encoding of a
// non-negative integer (what `any(int).([]byte)` gives inside a contract).
func leInt(v int64) []byte {
	if v == 0 {
		return []byte{}
	}
	b := new(big.Int).SetInt64(v).Bytes()
	for i, j := 0, len(b)-1; i < j; i, j = i+1, j-1 {
		b[i], b[j] = b[j], b[i]
	}
	if b[len(b)-1]&0x80 != 0 {
		b = append(b, 0)
	}
	return b
}

// knownGate decides whether surplus results explained by a listed known
// finding are forgiven: only when the fixed witness still fails AND the
// finding is listed in KNOWN_FINDINGS.txt.
func knownGate(col *ev.Collector, id, what string, witnessFails bool) bool {
	if !witnessFails {
		return false
	}
	if _, ok := ev.KnownListed("C20", id); ok {
		col.ReportKnown(id, what)
		return true
	}
	return false
}

// exactList compares a listing with the model. want: encodings of the items
// that must be returned; store: every item currently in the store mapped to its
// full storage-key encoding; query: the byte prefix the statement's key (epoch,
// id, ...) encodes to. Missing items are always violations. Surplus items are
// violations unless forgive is on and the surplus item really is in the store
// under a key of which the queried encoding is a proper prefix (the signature
// of the listed finding).
func exactList(col *ev.Collector, h *ev.History, kf string, forgive bool, what string, got, want []string, store map[string][]byte, query []byte) {
	g := map[string]int{}
	for _, x := range got {
		g[x]++
	}
	for _, x := range want {
		if g[x] == 0 {
			fail("C20: %s lost %s (returned %s)", what, x, short(sorted(got)))
		}
		g[x]--
	}
	for x, n := range g {
		if n <= 0 {
			continue
		}
		key, inStore := store[x]
		if forgive && inStore && len(key) > len(query) && bytes.HasPrefix(key, query) {
			col.Exclude(kf)
			h.Mark("surplus-forgiven:" + kf)
			continue
		}
		fail("C20: %s returned %d surplus item(s) %s that were never put under the queried key", what, n, x)
	}
}

func strList(o *chainkit.Outcome, what string) []string {
	l, ok := bytesList(o)
	if !ok {
		fail("C20: %s failed: %s", what, o)
	}
	return l
}

// ---------------------------------------------------------------------------
// Reputation

type repItem struct {
	epoch int64
	peer  []byte
	value []byte
}

func repID(epoch int64, peer []byte) []byte { return append(leInt(epoch), peer...) }

// repPeers builds a pool of 33-byte peer ids with a prefix-related pair:
// LE(1)||p[0] is a prefix of LE(257)||p[1].
func repPeers() [][]byte {
	y := sha256.Sum256([]byte("peer-y"))
	p0 := append([]byte{0x01}, y[:]...)           // 01 || Y
	p1 := append(append([]byte{}, y[:]...), 0x5a) // Y || 5a
	p2 := chainkit.DetKey("peer-2").PublicKey().Bytes()
	p3 := chainkit.DetKey("peer-3").PublicKey().Bytes()
	return [][]byte{p0, p1, p2, p3}
}

func TestC20Reputation(t *testing.T) {
	theT = t
	col := ev.New("C20", "reputation",
		"rapid: multisets of Reputation put(epoch,peer,value) over epochs {0,1,2,127,128,255,256,257,513,65535,65536,65537} and 4 peer ids (one pair crafted so that LE(1)||id0 is a byte prefix of LE(257)||id1), with and without the Alphabet; after every step get(e,p), getByID(id) for every pair of the pool and listByEpoch(e) for every epoch are compared with the exact-store model (multiset); non-trivial = puts under at least two epochs whose encodings are prefix related",
		"peer ids are 33 bytes", "epochs are non-negative")
	// witness of the known finding: put under epoch 257, ask for epoch 1
	wh := ev.NewHistory()
	ww := newNmWorld(1, wh, "reputation")
	rep := ww.fs.H["reputation"]
	peers := repPeers()
	ww.c.Invoke(ww.alpha, rep, "put", int64(257), peers[2], []byte("w"))
	wl := strList(ww.c.Call(nil, rep, "listByEpoch", int64(1)), "witness listByEpoch")
	forgiveList := knownGate(col, "KF-C20-reputation-listByEpoch", "Reputation listByEpoch(e) also returns ids of epochs whose little-endian encoding starts with that of e (witness: put(257,P,v); listByEpoch(1) returns P's id; listByEpoch(0) returns everything)", len(wl) != 0)
	ww.c.Invoke(ww.alpha, rep, "put", int64(257), peers[1], []byte("w2"))
	wg := strList(ww.c.Call(nil, rep, "get", int64(1), peers[0]), "witness get")
	forgiveGet := knownGate(col, "KF-C20-reputation-get", "Reputation get/getByID(id) also return values stored under longer ids that start with id (witness: put(257, Y||5a, v); get(1, 01||Y) returns v)", len(wg) != 0)
	ww.close()

	runRapid(t, col, func(rt *rapid.T, h *ev.History) {
		w := newNmWorld(rapid.SampledFrom([]int{1, 1, 3}).Draw(rt, "n"), h, "reputation")
		defer w.close()
		rep := w.fs.H["reputation"]
		var items []repItem
		steps := rapid.IntRange(1, 14).Draw(rt, "steps")
		usedEpochs := map[int64]bool{}
		for s := 0; s < steps; s++ {
			e := rapid.SampledFrom(c20Epochs).Draw(rt, "epoch")
			p := rapid.SampledFrom(peers).Draw(rt, "peer")
			v := []byte(fmt.Sprintf("v%d", rapid.IntRange(0, 3).Draw(rt, "value")))
			withAlpha := rapid.IntRange(0, 7).Draw(rt, "noAlpha") != 0
			signers := w.alpha
			if !withAlpha {
				signers = deficientSigners(rt, w.c, w.nodes[0])
			}
			o := w.c.Invoke(signers, rep, "put", e, p, v)
			h.Op("put(%d, %x.., %s) alphabet=%v -> %s", e, p[:3], v, withAlpha, o)
			if withAlpha != o.Halt {
				fail("C20: reputation put alphabet=%v: %s", withAlpha, o)
			}
			if o.Halt {
				items = append(items, repItem{e, p, v})
				usedEpochs[e] = true
			}
			// compare everything
			valStore := map[string][]byte{}
			idStore := map[string][]byte{}
			for _, it := range items {
				valStore["x"+hex(it.value)] = append(repID(it.epoch, it.peer), 0xff) // value keys: id || counter
				idStore["x"+hex(repID(it.epoch, it.peer))] = repID(it.epoch, it.peer)
			}
			for _, qe := range c20Epochs {
				for _, qp := range peers {
					var want []string
					for _, it := range items {
						if it.epoch == qe && bytes.Equal(it.peer, qp) {
							want = append(want, "x"+hex(it.value))
						}
					}
					// value multiplicities: the same value may sit under several ids; build a per-query store
					st := map[string][]byte{}
					for _, it := range items {
						id := repID(it.epoch, it.peer)
						if len(id) > len(repID(qe, qp)) && bytes.HasPrefix(id, repID(qe, qp)) {
							st["x"+hex(it.value)] = append(id, 0xff)
						}
					}
					exactList(col, h, "KF-C20-reputation-get", forgiveGet, fmt.Sprintf("reputation get(%d,%x..)", qe, qp[:3]),
						strList(w.c.Call(nil, rep, "get", qe, qp), "get"), want, st, repID(qe, qp))
					exactList(col, h, "KF-C20-reputation-get", forgiveGet, fmt.Sprintf("reputation getByID(%x..)", repID(qe, qp)[:4]),
						strList(w.c.Call(nil, rep, "getByID", repID(qe, qp)), "getByID"), want, st, repID(qe, qp))
				}
				seen := map[string]bool{}
				var want []string
				for _, it := range items {
					id := "x" + hex(repID(it.epoch, it.peer))
					if it.epoch == qe && !seen[id] {
						seen[id] = true
						want = append(want, id)
					}
				}
				exactList(col, h, "KF-C20-reputation-listByEpoch", forgiveList, fmt.Sprintf("reputation listByEpoch(%d)", qe),
					strList(w.c.Call(nil, rep, "listByEpoch", qe), "listByEpoch"), want, idStore, leInt(qe))
			}
		}
		for a := range usedEpochs {
			for b := range usedEpochs {
				if a != b && bytes.HasPrefix(leInt(b), leInt(a)) {
					h.NonTrivial()
				}
			}
		}
	})
}

// ---------------------------------------------------------------------------
// Audit

// auditBlob builds a DataAuditResult-like blob as the contract parses it.
func auditBlob(off int, epoch int64, cid, key []byte, salt int) []byte {
	b := []byte{0x0a, byte(off)}
	b = append(b, make([]byte, off)...)
	b = append(b, 0x11) // epoch field prefix
	var e [8]byte
	for i := 0; i < 8; i++ {
		e[i] = byte(epoch >> (8 * i))
	}
	b = append(b, e[:]...)
	b = append(b, 0x1a, byte(len(cid)+2), 0x0a) // cid struct prefix (2 bytes) + value wire type
	b = append(b, byte(len(cid)))
	b = append(b, cid...)
	b = append(b, 0x22) // key wire type
	b = append(b, byte(len(key)))
	b = append(b, key...)
	b = append(b, []byte(fmt.Sprintf("payload-%d", salt))...)
	return b
}

func auditID(epoch int64, cid, key []byte) []byte {
	h := sha256.Sum256(key)
	return append(append(leInt(epoch), cid...), h[:24]...)
}

func TestC20Audit(t *testing.T) {
	theT = t
	col := ev.New("C20", "audit",
		"rapid: Audit put over the epoch pool, 3 container ids (one pair prefix related: LE(1)||cid0 is a prefix of LE(257)||cid1) and senders {Inner Ring member with witness, member without witness, non-member with witness, non-member author co-signed by a member (either order), member author co-signed by a non-member, member author witnessed only by the other member, a member dismissed by a re-designation of the role in the previous block}; after every step get(id), list(), listByEpoch(e), listByCID(e,cid), listByNode(e,cid,key) for the whole pool are compared with the exact-store model; non-trivial = results stored under two prefix-related epochs or container ids",
		"container ids are 32 bytes, keys 33 bytes (as the Inner Ring produces them)")
	mk := func(h *ev.History) (*nmWorld, util.Uint160, []*keys.PrivateKey) {
		w := newNmWorld(1, h, "audit")
		ir := []*keys.PrivateKey{chainkit.DetKey("ir-0"), chainkit.DetKey("ir-1")}
		w.c.DesignateAlphabet(keys.PublicKeys{ir[0].PublicKey(), ir[1].PublicKey()})
		return w, w.fs.H["audit"], ir
	}
	y := sha256.Sum256([]byte("cid-y"))
	cids := [][]byte{append([]byte{0x01}, y[:31]...), y[:], detBytes("cid-plain", 32)}
	signerOf := func(k *keys.PrivateKey) neotest.Signer { return neotest.NewSingleSigner(walletOf(k)) }

	// witnesses
	wh := ev.NewHistory()
	ww, aud, ir := mk(wh)
	ww.c.Invoke([]neotest.Signer{signerOf(ir[0])}, aud, "put", auditBlob(0, 257, cids[2], ir[0].PublicKey().Bytes(), 0))
	l1 := strList(ww.c.Call(nil, aud, "listByEpoch", int64(1)), "witness")
	forgiveEpoch := knownGate(col, "KF-C20-audit-listByEpoch", "Audit listByEpoch(e) also returns ids of epochs whose little-endian encoding starts with that of e (witness: put for epoch 257; listByEpoch(1) returns it; listByEpoch(0) returns everything)", len(l1) != 0)
	ww.c.Invoke([]neotest.Signer{signerOf(ir[0])}, aud, "put", auditBlob(0, 257, cids[1], ir[0].PublicKey().Bytes(), 0))
	l2 := strList(ww.c.Call(nil, aud, "listByCID", int64(1), cids[0]), "witness")
	forgiveCID := knownGate(col, "KF-C20-audit-listByCID", "Audit listByCID(e,cid) also returns ids whose encoding LE(e')||cid' starts with LE(e)||cid (witness: put for (257, Y); listByCID(1, 01||Y[:31]) returns it)", len(l2) != 0)
	ww.close()

	runRapid(t, col, func(rt *rapid.T, h *ev.History) {
		w, aud, ir := mk(h)
		defer w.close()
		outsider := chainkit.DetKey("ir-outsider")
		cur := []*keys.PrivateKey{ir[0], ir[1]}
		spare, dismissed := chainkit.DetKey("ir-2"), (*keys.PrivateKey)(nil)
		store := map[string][]byte{} // "x"+hex(id) -> value
		idKey := map[string][]byte{} // "x"+hex(id) -> id bytes
		type rec struct {
			epoch int64
			cid   []byte
			key   []byte
		}
		recs := map[string]rec{}
		steps := rapid.IntRange(1, 14).Draw(rt, "steps")
		for s := 0; s < steps; s++ {
			e := rapid.SampledFrom(c20Epochs).Draw(rt, "epoch")
			cid := rapid.SampledFrom(cids).Draw(rt, "cid")
			sender := rapid.SampledFrom([]string{"member", "member", "member", "member", "member-no-witness", "outsider", "outsider-cosigned-by-a-member", "member-cosigned-by-outsider", "member-witnessed-by-the-other-member"}).Draw(rt, "sender")
			if rapid.IntRange(0, 5).Draw(rt, "rotateRole") == 0 {
				// the Inner Ring list changes: membership is that of the block of the invocation (the next one)
				dismissed, cur[1], spare = cur[1], spare, cur[1]
				w.c.DesignateAlphabet(keys.PublicKeys{cur[0].PublicKey(), cur[1].PublicKey()})
				h.Op("the Inner Ring role is re-designated (one key replaced)")
				h.Mark("role-rotation")
				if rapid.Bool().Draw(rt, "dismissedTriesAtOnce") {
					sender = "dismissed-member"
				}
			}
			mi := rapid.IntRange(0, 1).Draw(rt, "member")
			ir := cur
			from := ir[mi]
			signers := []neotest.Signer{signerOf(from)}
			switch sender {
			case "dismissed-member":
				from = dismissed
				signers = []neotest.Signer{signerOf(dismissed)}
			case "member-no-witness":
				signers = []neotest.Signer{signerOf(outsider)}
			case "outsider":
				from = outsider
				signers = []neotest.Signer{signerOf(outsider)}
			case "outsider-cosigned-by-a-member":
				// the author of the result is not in the Inner Ring, a member merely co-signs the transaction
				from = outsider
				signers = []neotest.Signer{signerOf(outsider), signerOf(ir[mi])}
				if rapid.Bool().Draw(rt, "memberFirst") {
					signers[0], signers[1] = signers[1], signers[0]
				}
			case "member-cosigned-by-outsider":
				signers = []neotest.Signer{signerOf(outsider), signerOf(from)}
			case "member-witnessed-by-the-other-member":
				// the author is a member but only the other member signs
				signers = []neotest.Signer{signerOf(ir[1-mi])}
			}
			blob := auditBlob(rapid.SampledFrom([]int{0, 3}).Draw(rt, "off"), e, cid, from.PublicKey().Bytes(), rapid.IntRange(0, 2).Draw(rt, "salt"))
			o := w.c.Invoke(signers, aud, "put", blob)
			h.Op("audit put(epoch %d, cid %x.., from %s) -> %s", e, cid[:3], sender, o)
			if (sender == "member" || sender == "member-cosigned-by-outsider") != o.Halt {
				fail("C20: audit put by %s: %s", sender, o)
			}
			if o.Halt {
				id := auditID(e, cid, from.PublicKey().Bytes())
				store["x"+hex(id)] = blob
				idKey["x"+hex(id)] = id
				recs["x"+hex(id)] = rec{e, cid, from.PublicKey().Bytes()}
			}
			var all []string
			for id, v := range store {
				all = append(all, id)
				g := w.c.Call(nil, aud, "get", idKey[id])
				if b, ok := g.Bytes(); !ok || !bytes.Equal(b, v) {
					fail("C20: audit get(%s) = %s, last put %x", id, g, v)
				}
			}
			exactList(col, h, "", false, "audit list()", strList(w.c.Call(nil, aud, "list"), "list"), all, nil, nil)
			for _, qe := range c20Epochs {
				var want []string
				for id, r := range recs {
					if r.epoch == qe {
						want = append(want, id)
					}
				}
				exactList(col, h, "KF-C20-audit-listByEpoch", forgiveEpoch, fmt.Sprintf("audit listByEpoch(%d)", qe),
					strList(w.c.Call(nil, aud, "listByEpoch", qe), "listByEpoch"), want, idKey, leInt(qe))
				for _, qc := range cids {
					var wantC []string
					for id, r := range recs {
						if r.epoch == qe && bytes.Equal(r.cid, qc) {
							wantC = append(wantC, id)
						}
					}
					q := append(leInt(qe), qc...)
					exactList(col, h, "KF-C20-audit-listByCID", forgiveCID, fmt.Sprintf("audit listByCID(%d,%x..)", qe, qc[:3]),
						strList(w.c.Call(nil, aud, "listByCID", qe, qc), "listByCID"), wantC, idKey, q)
					for _, k := range ir {
						var wantN []string
						for id, r := range recs {
							if r.epoch == qe && bytes.Equal(r.cid, qc) && bytes.Equal(r.key, k.PublicKey().Bytes()) {
								wantN = append(wantN, id)
							}
						}
						exactList(col, h, "", false, fmt.Sprintf("audit listByNode(%d,%x..,ir)", qe, qc[:3]),
							strList(w.c.Call(nil, aud, "listByNode", qe, qc, k.PublicKey().Bytes()), "listByNode"), wantN, nil, nil)
					}
				}
			}
		}
		for _, a := range recs {
			for _, b := range recs {
				ka, kb := append(leInt(a.epoch), a.cid...), append(leInt(b.epoch), b.cid...)
				if !bytes.Equal(ka, kb) && (bytes.HasPrefix(kb, leInt(a.epoch)) && a.epoch != b.epoch) {
					h.NonTrivial()
				}
			}
		}
	})
}

// ---------------------------------------------------------------------------
// NeoFSID

func TestC20NeoFSID(t *testing.T) {
	theT = t
	col := ev.New("C20", "neofsid",
		"rapid: NeoFSID addKey/removeKey over 3 owners (25-byte ids) and a pool of 5 keys, incl. re-adding, removing absent keys, wrong owner/key lengths and calls without the Alphabet; key(owner) compared with a set model after every step; non-trivial = a removal of a bound key followed by a read",
	)
	runRapid(t, col, func(rt *rapid.T, h *ev.History) {
		w := newNmWorld(rapid.SampledFrom([]int{1, 1, 3}).Draw(rt, "n"), h, "neofsid")
		defer w.close()
		id := w.fs.H["neofsid"]
		owners := [][]byte{ownerID(w.nodes[0].ScriptHash()), ownerID(w.nodes[1].ScriptHash()), ownerID(w.nodes[2].ScriptHash())}
		var pool [][]byte
		for i := 0; i < 5; i++ {
			pool = append(pool, chainkit.DetKey(fmt.Sprintf("idkey-%d", i)).PublicKey().Bytes())
		}
		model := map[int]map[string]bool{0: {}, 1: {}, 2: {}}
		steps := rapid.IntRange(1, 20).Draw(rt, "steps")
		for s := 0; s < steps; s++ {
			oi := rapid.IntRange(0, 2).Draw(rt, "owner")
			ks := subset(rt, "keys", pool)
			method := rapid.SampledFrom([]string{"addKey", "addKey", "removeKey"}).Draw(rt, "method")
			bad := rapid.SampledFrom([]string{"", "", "", "", "", "", "noAlpha", "shortOwner", "shortKey"}).Draw(rt, "bad")
			owner := owners[oi]
			signers := w.alpha
			arg := make([]any, len(ks))
			for i := range ks {
				arg[i] = ks[i]
			}
			switch bad {
			case "noAlpha":
				signers = deficientSigners(rt, w.c, w.nodes[0])
			case "shortOwner":
				owner = owner[:24]
			case "shortKey":
				arg = append(arg, pool[0][:32])
			}
			o := w.c.Invoke(signers, id, method, owner, arg)
			h.Op("%s(o%d, %d keys) bad=%q -> %s", method, oi, len(ks), bad, o)
			if (bad == "") != o.Halt {
				fail("C20: neofsid %s bad=%q: %s", method, bad, o)
			}
			if o.Halt {
				for _, k := range ks {
					if method == "addKey" {
						model[oi][string(k)] = true
					} else {
						if model[oi][string(k)] {
							h.NonTrivial()
						}
						delete(model[oi], string(k))
					}
				}
			}
			for qi := range owners {
				var want []string
				for k := range model[qi] {
					want = append(want, "x"+hex([]byte(k)))
				}
				exactList(col, h, "", false, fmt.Sprintf("neofsid key(o%d)", qi), strList(w.c.Call(nil, id, "key", owners[qi]), "key"), want, nil, nil)
			}
		}
	})
}

// ---------------------------------------------------------------------------
// configuration maps

func configPairs(o *chainkit.Outcome, what string) []string {
	arr, ok := o.Array()
	if !ok {
		fail("C20: %s failed: %s", what, o)
	}
	var res []string
	for _, it := range arr {
		f := chainkit.ItemArr(it)
		res = append(res, "x"+hex(chainkit.ItemBytes(f[0]))+"=x"+hex(chainkit.ItemBytes(f[1])))
	}
	sort.Strings(res)
	return res
}

func TestC20Config(t *testing.T) {
	theT = t
	col := ev.New("C20", "config",
		"rapid: setConfig/config/listConfig of Netmap (FS chain) and NeoFS (main chain: with Notary, and without Notary where a setting is put by the votes of 3 stored keys and several settings are in the vote at once - opened, completed, finished later in any order) over keys that are prefixes of one another (\"\", a, ab, abc, ContainerFee, ContainerFeeX, b) and values incl. empty, with and without the Alphabet; config(k) for every key of the pool and listConfig compared with a map model after every step; non-trivial = two keys set where one is a prefix of the other",
	)
	keysPool := [][]byte{{}, []byte("a"), []byte("ab"), []byte("abc"), []byte("ContainerFee"), []byte("ContainerFeeX"), []byte("b")}
	runRapid(t, col, func(rt *rapid.T, h *ev.History) {
		main := rapid.Bool().Draw(rt, "mainChain")
		w := newNmWorld(rapid.SampledFrom([]int{1, 1, 3}).Draw(rt, "n"), h, "netmap")
		defer w.close()
		target := w.nm
		model := map[string][]byte{}
		if main {
			args := []any{false, util.Uint160{1, 2, 3}, []any{w.c.Pubs[0].Bytes()}, []any{[]byte("abc"), []byte("init")}}
			target = w.c.Deploy(chainkit.Contract("neofs"), args)
			model["abc"] = []byte("init")
			h.Op("NeoFS contract (main chain, notary mode) with initial config abc=init")
		} else {
			h.Op("Netmap contract")
		}
		// main chain without Notary: a setting is put by the votes of the stored keys (3 keys, threshold 3),
		// and several settings may be in the vote at once
		voted := main && rapid.Bool().Draw(rt, "withoutNotary")
		var members []neotest.Signer
		type pend struct {
			id, k, v []byte
			votes    int
			last     uint32
		}
		var pending []*pend
		if voted {
			var pubs []any
			for i := 0; i < 3; i++ {
				key := chainkit.DetKey(fmt.Sprintf("c20-main-alphabet-%d", i))
				pubs = append(pubs, key.PublicKey().Bytes())
				members = append(members, neotest.NewSingleSigner(walletOf(key)))
			}
			target = w.c.Deploy(chainkit.ContractNamed("neofs", "NeoFS voted"), []any{true, util.Uint160{1, 2, 3}, pubs, []any{[]byte("abc"), []byte("init")}})
			h.Op("NeoFS contract without Notary, 3 stored keys")
			h.Mark("config-put-by-votes")
		}
		steps := rapid.IntRange(1, 14).Draw(rt, "steps")
		for s := 0; s < steps; s++ {
			k := rapid.SampledFrom(keysPool).Draw(rt, "key")
			v := rapid.SampledFrom([][]byte{[]byte("1"), []byte("22"), {}, {0}, []byte("a")}).Draw(rt, "value")
			if voted {
				cast := func(p *pend) {
					o := w.c.Invoke([]neotest.Signer{members[p.votes]}, target, "setConfig", p.id, p.k, p.v)
					p.votes++
					p.last = w.c.Height()
					h.Op("vote %d of stored key %d for setConfig(%q,%q) [%s] -> %s", p.votes, p.votes-1, p.k, p.v, p.id, o)
					if !o.Halt {
						fail("C20: vote of a stored key failed: %s", o)
					}
					if p.votes == 3 {
						model[string(p.k)] = p.v
					}
				}
				// ballots whose last vote is too old are abandoned (they expire; C17 judges that)
				live := pending[:0]
				for _, p := range pending {
					if w.c.Height()-p.last <= 12 {
						live = append(live, p)
					}
				}
				pending = live
				switch op := rapid.SampledFrom([]string{"open", "complete-new", "complete-new", "finish-pending", "finish-pending"}).Draw(rt, "voteOp"); {
				case op == "finish-pending" && len(pending) > 0:
					i := rapid.IntRange(0, len(pending)-1).Draw(rt, "whichPending")
					p := pending[i]
					pending = append(pending[:i], pending[i+1:]...)
					for p.votes < 3 {
						cast(p)
					}
					h.Mark("pending-setting-completed-after-another")
				case op == "open":
					p := &pend{id: []byte(fmt.Sprintf("id-%d", s)), k: k, v: v}
					cast(p)
					if rapid.Bool().Draw(rt, "secondVote") {
						cast(p)
					}
					pending = append(pending, p)
				default:
					p := &pend{id: []byte(fmt.Sprintf("id-%d", s)), k: k, v: v}
					for p.votes < 3 {
						cast(p)
					}
				}
			} else {
				withAlpha := rapid.IntRange(0, 7).Draw(rt, "noAlpha") != 0
				signers := w.alpha
				if !withAlpha {
					signers = deficientSigners(rt, w.c, w.nodes[0])
				}
				o := w.c.Invoke(signers, target, "setConfig", []byte(fmt.Sprintf("id-%d", s)), k, v)
				h.Op("setConfig(%q,%q) alphabet=%v -> %s", k, v, withAlpha, o)
				if withAlpha != o.Halt {
					fail("C20: setConfig alphabet=%v: %s", withAlpha, o)
				}
				if o.Halt {
					model[string(k)] = v
				}
			}
			var want []string
			for mk, mv := range model {
				want = append(want, "x"+hex([]byte(mk))+"=x"+hex(mv))
			}
			sort.Strings(want)
			got := configPairs(w.c.Call(nil, target, "listConfig"), "listConfig")
			if !sameStrings(got, want) {
				fail("C20: listConfig = %s, expected %s", short(got), short(want))
			}
			for _, qk := range keysPool {
				r := w.c.Call(nil, target, "config", qk)
				b, ok := r.Bytes()
				mv, set := model[string(qk)]
				if !ok || (set && (r.IsNull() && len(mv) > 0 || !bytes.Equal(b, mv))) || (!set && !r.IsNull()) {
					fail("C20: config(%q) = %s, model: set=%v value %q", qk, r, set, mv)
				}
			}
		}
		for a := range model {
			for b := range model {
				if a != b && len(b) > len(a) && b[:len(a)] == a {
					h.NonTrivial()
				}
			}
		}
	})
}

// ---------------------------------------------------------------------------
// container size estimations

type estKey struct {
	epoch int64
	cid   string
	node  int
}

func TestC20Estimations(t *testing.T) {
	theT = t
	col := ev.New("C20", "estimations",
		"rapid: putContainerSize over epochs near the current one and from the prefix pool {1,256,257,65536}, 2 live containers and a missing one, 3 storage nodes that enter/leave the network map, senders with their witness, without it (another node signs) and with it plus another node's co-signature, interleaved with epoch ticks; accepted iff the container is live, the key witnessed and the key is in the previous epoch's map (read from Netmap snapshot(1)); model: put removes that node's entries of the container older than epoch-3, a tick to e removes all entries older than e-4; after every step iterateContainerSizes, iterateAllContainerSizes, listContainerSizes and getContainerSize are compared with the model for every epoch in use; non-trivial = an entry was cleaned by a put or a tick while another entry survived",
		"epochs are non-negative", "container ids are SHA-256 values (prefix-related container ids cannot be constructed)")
	est := func(pub []byte, size int64) string {
		return chainkit.ItemString(stackitem.NewStruct([]stackitem.Item{stackitem.NewByteArray(pub), stackitem.Make(size)}))
	}
	// witness of the known finding
	setup := func(h *ev.History) (*cntWorld, []*cntBlob) {
		w := newCntWorld(1, h, 0, 0)
		var blobs []*cntBlob
		for i := 0; i < 2; i++ {
			b := w.mkBlob(i, 0, 40+i, "")
			if o := w.c.Invoke(w.alpha, w.cnt, "put", b.value, detBytes("sig", 64), w.owners[i].Account().PublicKey().Bytes(), []byte{}); !o.Halt {
				fail("C20 harness: put: %s", o)
			}
			blobs = append(blobs, b)
		}
		return w, blobs
	}
	nodes := []neotest.SingleSigner{chainkit.NamedUser("est-node-0"), chainkit.NamedUser("est-node-1"), chainkit.NamedUser("est-node-2")}
	pubOf := func(i int) []byte { return nodes[i].Account().PublicKey().Bytes() }
	wh := ev.NewHistory()
	ww, wb := setup(wh)
	ww.c.Invoke(ww.alpha, ww.nm, "addPeerIR", legacyInfo(pubOf(0), 1))
	ww.c.Invoke(ww.alpha, ww.nm, "newEpoch", 1)
	ww.c.Invoke(ww.alpha, ww.nm, "newEpoch", 2)
	ww.c.Invoke([]neotest.Signer{nodes[0]}, ww.cnt, "putContainerSize", int64(257), wb[0].id, int64(5), pubOf(0))
	wl := strList(ww.c.Call(nil, ww.cnt, "listContainerSizes", int64(1)), "witness")
	forgive := knownGate(col, "KF-C20-container-sizes-epoch", "Container listContainerSizes(e)/iterateAllContainerSizes(e) also return estimations of epochs whose little-endian encoding starts with that of e (witness: putContainerSize(257,...); listContainerSizes(1) returns its id; epoch 0 returns everything)", len(wl) != 0)
	ww.close()

	runRapid(t, col, func(rt *rapid.T, h *ev.History) {
		w, blobs := setup(h)
		defer w.close()
		missing := w.mkBlob(2, 0, 77, "")
		cur := int64(0)
		model := map[estKey]int64{}
		// nodes 0 and 1 start as members of two consecutive maps so that most puts are eligible
		for i := 0; i < 2; i++ {
			w.c.Invoke(w.alpha, w.nm, "addPeerIR", legacyInfo(pubOf(i), 1))
		}
		for i := 0; i < 2; i++ {
			cur++
			if o := w.c.Invoke(w.alpha, w.nm, "newEpoch", cur); !o.Halt {
				fail("C20 harness: tick: %s", o)
			}
		}
		steps := rapid.IntRange(2, 30).Draw(rt, "steps")
		cleaned := false
		forceNode := -1
		for s := 0; s < steps; s++ {
			kind := rapid.SampledFrom([]string{"put", "put", "put", "put", "put", "tick", "tick", "tick", "node", "blackout"}).Draw(rt, "kind")
			if forceNode >= 0 {
				kind = "put"
			}
			switch kind {
			case "blackout":
				// every node leaves, an epoch publishes an empty map, one node comes back and is admitted by the next
				// tick: the previous epoch's map is empty while the current one is not - "nobody was there" is not
				// "everybody may"
				for i := 0; i < 3; i++ {
					w.c.Invoke(w.alpha, w.nm, "updateStateIR", 2, pubOf(i))
				}
				back := rapid.IntRange(0, 2).Draw(rt, "comesBack")
				for j := 0; j < 2; j++ {
					if j == 1 {
						w.c.Invoke(w.alpha, w.nm, "addPeerIR", legacyInfo(pubOf(back), 1))
					}
					cur++
					if o := w.c.Invoke(w.alpha, w.nm, "newEpoch", cur); !o.Halt {
						fail("C20 harness: tick: %s", o)
					}
					for k := range model {
						if cur-k.epoch > 4 {
							delete(model, k)
							cleaned = true
							h.Mark("cleaned-by-tick")
						}
					}
				}
				forceNode = back
				h.Op("blackout: all nodes leave, tick to %d (empty map), node %d returns, tick to %d", cur-1, back, cur)
				h.Mark("previous-map-empty-current-not")
			case "node":
				i := rapid.IntRange(0, 2).Draw(rt, "node")
				if rapid.Bool().Draw(rt, "add") {
					o := w.c.Invoke(w.alpha, w.nm, "addPeerIR", legacyInfo(pubOf(i), 1))
					h.Op("node %d becomes a candidate -> %s", i, o)
				} else {
					o := w.c.Invoke(w.alpha, w.nm, "updateStateIR", 2, pubOf(i))
					h.Op("node %d leaves the candidates -> %s", i, o)
				}
			case "tick":
				cur++
				o := w.c.Invoke(w.alpha, w.nm, "newEpoch", cur)
				if !o.Halt {
					fail("C20 harness: tick: %s", o)
				}
				for k := range model {
					if cur-k.epoch > 4 {
						delete(model, k)
						cleaned = true
						h.Mark("cleaned-by-tick")
					}
				}
				h.Op("tick -> epoch %d", cur)
			case "put":
				var e int64
				if rapid.IntRange(0, 4).Draw(rt, "poolEpoch") == 0 {
					e = rapid.SampledFrom([]int64{0, 1, 256, 257, 65536}).Draw(rt, "epoch")
				} else {
					e = cur + int64(rapid.IntRange(-6, 1).Draw(rt, "epochDelta"))
					if e < 0 {
						e = 0
					}
				}
				ni := rapid.IntRange(0, 2).Draw(rt, "node")
				bi := rapid.IntRange(0, 2).Draw(rt, "container")
				if forceNode >= 0 {
					ni, bi, forceNode = forceNode, bi%2, -1
				}
				var b *cntBlob
				if bi < 2 {
					b = blobs[bi]
				} else {
					b = missing
				}
				size := int64(rapid.IntRange(0, 1000).Draw(rt, "size"))
				witness := rapid.IntRange(0, 5).Draw(rt, "noWitness") != 0
				signers := []neotest.Signer{nodes[ni]}
				if !witness {
					signers = []neotest.Signer{nodes[(ni+1)%3]}
				} else if rapid.IntRange(0, 3).Draw(rt, "coSigned") == 0 {
					// another node co-signs: membership and witness are both those of the named key
					signers = []neotest.Signer{nodes[ni], nodes[(ni+1)%3]}
					if rapid.Bool().Draw(rt, "coSignerFirst") {
						signers[0], signers[1] = signers[1], signers[0]
					}
					h.Mark("co-signed-by-another-node")
				}
				// membership in the previous epoch's map, as Netmap itself reports it
				inPrev := false
				if snap, ok := w.c.Call(nil, w.nm, "snapshot", 1).Array(); ok {
					for _, n := range snap {
						blob := chainkit.ItemBytes(chainkit.ItemArr(n)[0])
						if bytes.Equal(blob[2:35], pubOf(ni)) {
							inPrev = true
						}
					}
				}
				o := w.c.Invoke(signers, w.cnt, "putContainerSize", e, b.id, size, pubOf(ni))
				h.Op("putContainerSize(epoch %d, c%d, %d, node %d) witness=%v inPreviousMap=%v at epoch %d -> %s", e, bi, size, ni, witness, inPrev, cur, o)
				want := bi < 2 && witness && inPrev
				if want != o.Halt {
					fail("C20: putContainerSize live=%v witness=%v inPreviousMap=%v: %s", bi < 2, witness, inPrev, o)
				}
				if o.Halt {
					for k := range model {
						if k.cid == string(b.id) && k.node == ni && e-k.epoch > 3 {
							delete(model, k)
							cleaned = true
							h.Mark("cleaned-by-put")
						}
					}
					model[estKey{e, string(b.id), ni}] = size
					h.Mark("accepted")
				} else {
					h.Mark("refused")
				}
			}
			// compare
			qEpochs := map[int64]bool{0: true, 1: true, 256: true, 257: true, 65536: true}
			for k := range model {
				qEpochs[k.epoch] = true
			}
			for e := cur - 7; e <= cur+1; e++ {
				if e >= 0 {
					qEpochs[e] = true
				}
			}
			// all stored (kv rendering -> storage key suffix after "cnr")
			allKV := map[string][]byte{}
			allID := map[string][]byte{}
			kvOf := func(k estKey) string {
				r := ripemd(pubOf(k.node))
				return "[x" + hex(append([]byte(k.cid), r[:10]...)) + "," + est(pubOf(k.node), model[k]) + "]"
			}
			for k := range model {
				allKV[kvOf(k)] = append(leInt(k.epoch), []byte(k.cid)...)
				id := append(append([]byte("cnr"), leInt(k.epoch)...), []byte(k.cid)...)
				allID["x"+hex(id)] = append(leInt(k.epoch), []byte(k.cid)...)
			}
			for qe := range qEpochs {
				var wantAll, wantIDs []string
				seen := map[string]bool{}
				for k := range model {
					if k.epoch == qe {
						wantAll = append(wantAll, kvOf(k))
						id := "x" + hex(append(append([]byte("cnr"), leInt(k.epoch)...), []byte(k.cid)...))
						if !seen[id] {
							seen[id] = true
							wantIDs = append(wantIDs, id)
						}
					}
				}
				// per-query stores: only entries of OTHER epochs may be forgiven
				stKV, stID := map[string][]byte{}, map[string][]byte{}
				for k := range model {
					if k.epoch != qe {
						stKV[kvOf(k)] = allKV[kvOf(k)]
						id := "x" + hex(append(append([]byte("cnr"), leInt(k.epoch)...), []byte(k.cid)...))
						stID[id] = allID[id]
					}
				}
				// listContainerSizes cuts 10 bytes and de-duplicates; a surplus id is the storage key of a longer epoch cut the same way
				gotAll := strList(w.c.Call(nil, w.cnt, "iterateAllContainerSizes", qe), "iterateAllContainerSizes")
				if forgive {
					// under the finding the returned keys of foreign epochs carry the remaining epoch bytes in front of the cid;
					// normalise: accept any surplus whose value is the estimation of a stored foreign-epoch entry
					gotAll = normaliseForeign(gotAll, wantAll, model, qe, est, pubOf, col, h)
				}
				exactList(col, h, "KF-C20-container-sizes-epoch", false, fmt.Sprintf("iterateAllContainerSizes(%d)", qe), gotAll, wantAll, stKV, leInt(qe))
				exactList(col, h, "KF-C20-container-sizes-epoch", forgive, fmt.Sprintf("listContainerSizes(%d)", qe),
					strList(w.c.Call(nil, w.cnt, "listContainerSizes", qe), "listContainerSizes"), wantIDs, stID, leInt(qe))
				for _, b := range append(append([]*cntBlob{}, blobs...), missing) {
					var want []string
					for k := range model {
						if k.epoch == qe && k.cid == string(b.id) {
							want = append(want, est(pubOf(k.node), model[k]))
						}
					}
					exactList(col, h, "", false, fmt.Sprintf("iterateContainerSizes(%d,c)", qe),
						strList(w.c.Call(nil, w.cnt, "iterateContainerSizes", qe, b.id), "iterateContainerSizes"), want, nil, nil)
					id := append(append([]byte("cnr"), leInt(qe)...), b.id...)
					g := w.c.Call(nil, w.cnt, "getContainerSize", id)
					if !g.Halt {
						fail("C20: getContainerSize failed: %s", g)
					}
					f := chainkit.ItemArr(g.Top())
					if !bytes.Equal(chainkit.ItemBytes(f[0]), b.id) {
						fail("C20: getContainerSize returned container %x", chainkit.ItemBytes(f[0]))
					}
					var got []string
					for _, it := range chainkit.ItemArr(f[1]) {
						got = append(got, chainkit.ItemString(it))
					}
					exactList(col, h, "", false, fmt.Sprintf("getContainerSize(%d,c)", qe), got, want, nil, nil)
				}
			}
		}
		if cleaned && len(model) > 0 {
			h.NonTrivial()
		}
	})
}

// normaliseForeign removes from got the key/value pairs that belong to stored
// estimations of other epochs whose encoding starts with the queried one (the
// signature of KF-C20-container-sizes-epoch), counting them as excluded.
func normaliseForeign(got, want []string, model map[estKey]int64, qe int64, est func([]byte, int64) string, pubOf func(int) []byte, col *ev.Collector, h *ev.History) []string {
	w := map[string]int{}
	for _, x := range want {
		w[x]++
	}
	var res []string
	for _, g := range got {
		if w[g] > 0 {
			w[g]--
			res = append(res, g)
			continue
		}
		explained := false
		for k := range model {
			if k.epoch != qe && len(leInt(k.epoch)) > len(leInt(qe)) && bytes.HasPrefix(leInt(k.epoch), leInt(qe)) {
				rest := leInt(k.epoch)[len(leInt(qe)):]
				r := ripemd(pubOf(k.node))
				key := append(append(append([]byte{}, rest...), []byte(k.cid)...), r[:10]...)
				if g == "[x"+hex(key)+","+est(pubOf(k.node), model[k])+"]" {
					explained = true
				}
			}
		}
		if explained {
			col.Exclude("KF-C20-container-sizes-epoch")
			h.Mark("surplus-forgiven:KF-C20-container-sizes-epoch")
			continue
		}
		res = append(res, g)
	}
	return res
}

// TestC20ReputationMany: many values under one (epoch, peer): the per-id counter passes the one-byte boundaries.
func TestC20ReputationMany(t *testing.T) {
	theT = t
	col := ev.New("C20", "reputation-many",
		"complete enumeration: n in {126,127,128,129,130,255,256,257,260} distinct values are put under one (epoch, peer) by the Alphabet, with a second id next to it; get(epoch, peer), getByID(id) must return exactly those n values (as a multiset, no Null, nothing of the neighbour) and listByEpoch the two ids; non-trivial = every case")
	defer func() { col.Flush(true) }()
	nshards, shard := envInt("VERIF_NSHARDS", 1), envInt("VERIF_SHARD_INDEX", 0)
	peers := repPeers()
	for i, n := range []int{126, 127, 128, 129, 130, 255, 256, 257, 260} {
		if i%nshards != shard {
			continue
		}
		h := ev.NewHistory()
		h.Op("%d values under one id", n)
		if !runCase(t, col, h, func() {
			w := newNmWorld(1, h, "reputation")
			defer w.close()
			rep := w.fs.H["reputation"]
			e := int64(5)
			var want []string
			w.c.Invoke(w.alpha, rep, "put", e, peers[1], []byte("neighbour"))
			for j := 0; j < n; j++ {
				v := []byte(fmt.Sprintf("value-%04d", j))
				if o := w.c.Invoke(w.alpha, rep, "put", e, peers[0], v); !o.Halt {
					fail("C20: put #%d under one id refused: %s", j+1, o)
				}
				want = append(want, "x"+hex(v))
			}
			for _, q := range []struct {
				what string
				o    *chainkit.Outcome
			}{{"get", w.c.Call(nil, rep, "get", e, peers[0])}, {"getByID", w.c.Call(nil, rep, "getByID", repID(e, peers[0]))}} {
				got, ok := renderList(q.o)
				if !ok {
					fail("C20: reputation %s after %d puts failed: %s", q.what, n, q.o)
				}
				if !sameStrings(got, sorted(want)) {
					fail("C20: reputation %s after %d puts under one id returns %d items (%s...), expected exactly the %d values put", q.what, n, len(got), short(got), n)
				}
			}
			h.NonTrivial()
		}) {
			return
		}
	}
	col.SetExhaustive(true)
}
