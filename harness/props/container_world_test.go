package props

import (
	"crypto/sha256"
	"fmt"
	"sort"

	"github.com/mr-tron/base58"
	"github.com/nspcc-dev/neo-go/pkg/neotest"
	"github.com/nspcc-dev/neo-go/pkg/util"

	"verif/harness/chainkit"
	"verif/harness/ev"
)

// cntWorld is the Container fixture (NNS, Netmap, Balance, NeoFSID, Container)
// shared by C04, C05, C14 and C20.
type cntWorld struct {
	c      *chainkit.Chain
	fs     *chainkit.FS
	cnt    util.Uint160
	bal    util.Uint160
	nm     util.Uint160
	nns    util.Uint160
	h      *ev.History
	alpha  []neotest.Signer
	owners []neotest.SingleSigner
}

func newCntWorld(n int, h *ev.History, fee, aliasFee int64) *cntWorld {
	return newCntWorldV(n, 0, h, fee, aliasFee)
}

// newCntWorldV is newCntWorld on a chain whose consensus nodes are only the first v committee members (0 = all).
func newCntWorldV(n, v int, h *ev.History, fee, aliasFee int64) *cntWorld {
	c := chainkit.NewChain(theT, n, chainkit.Options{Validators: v})
	fs := chainkit.NewFS(c, chainkit.FSOptions{
		Contracts:    []string{"netmap", "balance", "neofsid", "container"},
		NetmapConfig: []any{"ContainerFee", fee, "ContainerAliasFee", aliasFee},
	})
	w := &cntWorld{c: c, fs: fs, cnt: fs.H["container"], bal: fs.H["balance"], nm: fs.H["netmap"], nns: fs.H["nns"], h: h, alpha: []neotest.Signer{c.Alphabet}}
	for i := 0; i < 3; i++ {
		w.owners = append(w.owners, chainkit.NamedUser(fmt.Sprintf("owner-%d", i)))
	}
	return w
}

func (w *cntWorld) close() { w.c.Close() }

// ownerID builds the 25-byte NeoFS owner id of a script hash (address bytes).
func ownerID(u util.Uint160) []byte {
	b := append([]byte{0x35}, u.BytesBE()...)
	h1 := sha256.Sum256(b)
	h2 := sha256.Sum256(h1[:])
	return append(b, h2[:4]...)
}

// cntBlob is a generated container.
type cntBlob struct {
	value []byte
	id    []byte
	owner int    // index into owners
	name  string // "" = unnamed; a function of the blob
	label string
}

// mkBlob builds a container blob whose version field has the given length.
func (w *cntWorld) mkBlob(owner, off, salt int, name string) *cntBlob {
	return w.mkBlobTail(owner, off, salt, name, 24)
}

// mkBlobTail is mkBlob with a chosen number of bytes after the owner field (0: the owner id ends the blob).
func (w *cntWorld) mkBlobTail(owner, off, salt int, name string, tail int) *cntBlob {
	b := make([]byte, 2+off+4+25+tail)
	b[0] = 0x0a
	b[1] = byte(off)
	for i := 0; i < off; i++ {
		b[2+i] = byte(i*7 + salt)
	}
	copy(b[2+off:], []byte{0x12, 0x1b, 0x0a, 0x19})
	copy(b[2+off+4:], ownerID(w.owners[owner].ScriptHash()))
	copy(b[2+off+4+25:], []byte(fmt.Sprintf("salt-%d-name-%s", salt, name)))
	id := sha256.Sum256(b)
	lbl := fmt.Sprintf("cnr(o%d,off%d,s%d,%q)", owner, off, salt, name)
	if tail != 24 {
		lbl = fmt.Sprintf("cnr(o%d,off%d,s%d,%q,tail%d)", owner, off, salt, name, tail)
	}
	return &cntBlob{value: b, id: id[:], owner: owner, name: name, label: lbl}
}

// mkEACL builds an eACL table blob referring to cid.
func mkEACL(cid []byte, off, salt int) []byte {
	b := make([]byte, 2+off+4+32+8)
	b[0] = 0x0a
	b[1] = byte(off)
	copy(b[2+off:], []byte{0x12, 0x22, 0x0a, 0x20})
	copy(b[2+off+4:], cid)
	b[len(b)-1] = byte(salt)
	return b
}

// liveCnt is the model's view of a live container.
type liveCnt struct {
	blob  *cntBlob
	sig   []byte
	pub   []byte
	token []byte
	alias string // domain, "" if none
	eacl  []string
	meta  bool
}

// regModel is the reference model of C04.
type regModel struct {
	live    map[string]*liveCnt // hex(cid)
	tomb    map[string]bool
	seen    map[string]*cntBlob // every id ever used
	doms    map[string]bool     // every alias domain ever used
	expired map[string]bool     // alias domains whose registration has run out
}

func newRegModel() *regModel {
	return &regModel{live: map[string]*liveCnt{}, tomb: map[string]bool{}, seen: map[string]*cntBlob{}, doms: map[string]bool{}, expired: map[string]bool{}}
}

func structString(fields ...[]byte) string {
	s := "["
	for i, f := range fields {
		if i > 0 {
			s += ","
		}
		s += "x" + hex(f)
	}
	return s + "]"
}

// compare checks the whole read API, NNS and raw storage against the model.
func (w *cntWorld) compareRegistry(m *regModel, what string) {
	call := func(method string, args ...any) *chainkit.Outcome { return w.c.Call(nil, w.cnt, method, args...) }
	var ids []string
	for k := range m.seen {
		ids = append(ids, k)
	}
	sort.Strings(ids)
	for _, k := range ids {
		b := m.seen[k]
		l, live := m.live[k]
		g := call("get", b.id)
		ow := call("owner", b.id)
		al := call("alias", b.id)
		ea := call("eACL", b.id)
		if !live {
			for name, o := range map[string]*chainkit.Outcome{"get": g, "owner": ow, "alias": al, "eACL": ea} {
				if o.Halt {
					fail("C04: %s(%s) answered %s for a container that is not live (%s)", name, b.label, o, what)
				}
				if !o.FaultHas("container does not exist") {
					fail("C04: %s(%s) for a non-live container failed with %q instead of 'not found' (%s)", name, b.label, o.Fault, what)
				}
			}
			continue
		}
		want := structString(l.blob.value, l.sig, l.pub, l.token)
		if !g.Halt || chainkit.ItemString(g.Top()) != want {
			fail("C04: get(%s) = %s, expected %s (%s)", b.label, g, want, what)
		}
		v := chainkit.ItemBytes(chainkit.ItemArr(g.Top())[0])
		if s := sha256.Sum256(v); string(s[:]) != string(b.id) {
			fail("C04: sha256 of the blob returned by get(%s) is not its id", b.label)
		}
		if ob, ok := ow.Bytes(); !ok || string(ob) != string(ownerID(w.owners[b.owner].ScriptHash())) {
			fail("C04: owner(%s) = %s (%s)", b.label, ow, what)
		}
		ab, ok := al.Bytes()
		if !ok || string(ab) != l.alias {
			fail("C04: alias(%s) = %s, expected %q (%s)", b.label, al, l.alias, what)
		}
		wantE := "[x,x,x,x]"
		if l.eacl != nil {
			wantE = "[" + l.eacl[0] + "," + l.eacl[1] + "," + l.eacl[2] + "," + l.eacl[3] + "]"
		}
		if !ea.Halt || chainkit.ItemString(ea.Top()) != wantE {
			fail("C04: eACL(%s) = %s, expected %s (%s)", b.label, ea, wantE, what)
		}
	}
	// byte strings that are no id of a live container but look like one: prefixes of a live id, the empty
	// string, a live id with a byte appended - every getter must say "not found" (FAULT), none may answer
	var firstLive *liveCnt
	for _, l := range m.live {
		if firstLive == nil || string(l.blob.id) < string(firstLive.blob.id) {
			firstLive = l
		}
	}
	for _, l := range []*liveCnt{firstLive} {
		if l == nil {
			break
		}
		id := l.blob.id
		for _, q := range [][]byte{id[:31], id[:16], id[:1], {}, append(append([]byte{}, id...), 0)} {
			for _, name := range []string{"get", "owner", "alias", "eACL"} {
				if o := w.c.Call(nil, w.cnt, name, q); o.Halt {
					fail("C04: %s(%x) - a %d-byte string related to the live id of %s - answered %s instead of 'not found' (%s)", name, q, len(q), l.blob.label, o, what)
				}
			}
		}
	}
	// listings
	all := []string{}
	per := map[int][]string{}
	for _, l := range m.live {
		all = append(all, "x"+hex(l.blob.id))
		per[l.blob.owner] = append(per[l.blob.owner], "x"+hex(l.blob.id))
	}
	expect := func(name string, o *chainkit.Outcome, want []string) {
		got, ok := renderList(o)
		if !ok {
			fail("C04: %s failed: %s (%s)", name, o, what)
		}
		if !sameStrings(got, sorted(want)) {
			fail("C04: %s = %s, expected %s (%s)", name, short(got), short(sorted(want)), what)
		}
	}
	expect("list(empty)", call("list", []byte{}), all)
	expect("containersOf(nil)", call("containersOf", nil), all)
	for i := range w.owners {
		oid := ownerID(w.owners[i].ScriptHash())
		expect(fmt.Sprintf("list(o%d)", i), call("list", oid), per[i])
		expect(fmt.Sprintf("containersOf(o%d)", i), call("containersOf", oid), per[i])
	}
	if v, ok := call("count").Int(); !ok || v != int64(len(m.live)) {
		fail("C04: count() = %d, expected %d (%s)", v, len(m.live), what)
	}
	// NNS alias records
	for d := range m.doms {
		var want []string
		for _, l := range m.live {
			if l.alias == d {
				want = append(want, "x"+hex([]byte(base58.Encode(l.blob.id))))
			}
		}
		o := w.c.Call(nil, w.nns, "getRecords", d, int64(16))
		if m.expired[d] {
			if o.Halt {
				if got, ok := renderList(o); ok && len(got) != 0 {
					fail("C04: NNS still answers %s for the expired alias domain %s (%s)", short(got), d, what)
				}
			}
			continue
		}
		if !o.Halt && len(want) == 0 {
			continue // domain never registered (or expired): no records
		}
		got, ok := renderList(o)
		if !ok {
			fail("C04: NNS getRecords(%s) failed: %s", d, o)
		}
		if !sameStrings(got, sorted(want)) {
			fail("C04: NNS TXT records of %s = %s, expected %s (%s)", d, short(got), short(sorted(want)), what)
		}
	}
	// raw storage: exactly the traces the model implies
	wantKeys := map[string]string{}
	for _, l := range m.live {
		id := string(l.blob.id)
		wantKeys["x"+id] = "container"
		wantKeys["o"+string(ownerID(w.owners[l.blob.owner].ScriptHash()))+id] = "owner index"
		if l.meta {
			wantKeys["m"+id] = "meta flag"
		}
		if l.eacl != nil {
			wantKeys["eACL"+id] = "eACL"
		}
		if l.alias != "" {
			wantKeys["nnsHasAlias"+id] = "alias"
		}
	}
	for k := range m.tomb {
		b, _ := hexDecode(k)
		wantKeys["d"+string(b)] = "tombstone"
	}
	raw := w.c.Storage(w.cnt)
	isTrace := func(k string) bool {
		if len(k) == 0 {
			return false
		}
		switch {
		case k[0] == 'x' || k[0] == 'o' || k[0] == 'd' || k[0] == 'm':
			return true
		case len(k) >= 4 && k[:4] == "eACL":
			return true
		case len(k) >= 11 && k[:11] == "nnsHasAlias":
			return true
		}
		return false
	}
	for k := range raw {
		if isTrace(k) {
			if _, ok := wantKeys[k]; !ok {
				fail("C04: storage holds an unexpected trace %x (%s)", k, what)
			}
		}
	}
	for k, kind := range wantKeys {
		if _, ok := raw[k]; !ok {
			fail("C04: storage lacks the %s key %x (%s)", kind, k, what)
		}
	}
}
