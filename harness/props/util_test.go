package props

import (
	"github.com/nspcc-dev/neo-go/pkg/crypto/hash"
	"github.com/nspcc-dev/neo-go/pkg/crypto/keys"
	"github.com/nspcc-dev/neo-go/pkg/wallet"
)

func walletOf(k *keys.PrivateKey) *wallet.Account { return wallet.NewAccountFromPrivateKey(k) }

func ripemd(b []byte) []byte { return hash.RipeMD160(b).BytesBE() }
