package props

import (
	"fmt"
	"testing"

	"github.com/nspcc-dev/neo-go/pkg/core/transaction"
	"github.com/nspcc-dev/neo-go/pkg/neotest"
	"github.com/nspcc-dev/neo-go/pkg/util"
	"pgregory.net/rapid"

	"verif/harness/chainkit"
	"verif/harness/ev"
)

// c06World: Netmap + Balance (subscriber #0 by deployment) + probe subscribers.
type c06World struct {
	*nmWorld
	bal     util.Uint160
	probes  []util.Uint160
	noEpoch util.Uint160 // a contract without newEpoch
	// model
	cur     int64
	subs    []util.Uint160 // subscription order
	reject  map[util.Uint160]bool
	ticked  map[int64][]string // epoch -> structured list published
	current []string           // legacy map published by the last tick
	lockSeq int
}

func newC06World(n int, h *ev.History, standalone bool) *c06World {
	contracts := []string{"netmap", "balance"}
	if standalone {
		// Netmap alone: no subscriber of the repository re-checks anything behind it
		contracts = []string{"netmap"}
	}
	w := &c06World{nmWorld: newNmWorld(n, h, contracts...), reject: map[util.Uint160]bool{}, ticked: map[int64][]string{}}
	if !standalone {
		w.bal = w.fs.H["balance"]
		w.subs = []util.Uint160{w.bal}
	}
	for i := 0; i < 4; i++ {
		w.probes = append(w.probes, w.c.Deploy(chainkit.Probe("subscriber", fmt.Sprintf("verif subscriber %d", i)), nil))
	}
	w.noEpoch = w.c.Deploy(chainkit.Probe("actor", ""), nil)
	w.current = []string{}
	return w
}

func (w *c06World) subscribed(h util.Uint160) bool {
	for _, s := range w.subs {
		if s == h {
			return true
		}
	}
	return false
}

func (w *c06World) isProbe(h util.Uint160) int {
	for i, p := range w.probes {
		if p == h {
			return i
		}
	}
	return -1
}

func (w *c06World) listStrings(method string, args ...any) []string {
	o := w.call(method, args...)
	l, ok := renderList(o)
	if !ok {
		fail("C06: %s failed: %s", method, o)
	}
	if l == nil {
		l = []string{}
	}
	return l
}

func (w *c06World) probeCalls(i int) int64 {
	o := w.c.Call(nil, w.probes[i], "calls")
	v, ok := o.Int()
	if !ok {
		fail("C06 harness: probe calls(): %s", o)
	}
	return v
}

// tickExpect is what the model says about one newEpoch transaction.
type tickTx struct {
	e      int64
	alpha  bool
	scoped bool // the Alphabet's witness has scope CalledByEntry: valid in Netmap, not in the contracts Netmap calls
	tx     *transaction.Transaction
}

// observeTick checks one executed newEpoch transaction against the model.
// preCand/preNode2 are the candidate lists before the transaction, callsBefore
// the probes' delivery counters.
func (w *c06World) afterTick(t tickTx, o *chainkit.Outcome, preCand, preNode2 []string, callsBefore []int64, lastOfBlock bool) bool {
	rejecting := false
	for _, s := range w.subs {
		if w.reject[s] {
			rejecting = true
		}
	}
	want := t.alpha && t.e > w.cur && !rejecting
	if t.scoped && w.subscribed(w.bal) && w.bal != (util.Uint160{}) && want {
		// Balance re-checks the Alphabet's witness, which this transaction limits to the entry call: Balance may reject
		// (then nothing changes) - what may not happen is a tick that succeeds without having reached Balance (the
		// checks of a successful tick below decide that)
		w.h.Mark("tick-with-CalledByEntry-scope")
		if !o.Halt {
			w.h.Mark("tick-refused")
			return false
		}
	} else if want != o.Halt {
		fail("C06: newEpoch(%d) at epoch %d alphabet=%v rejectingSubscriber=%v: expected success=%v, got %s", t.e, w.cur, t.alpha, rejecting, want, o)
	}
	if !o.Halt {
		w.h.Mark("tick-refused")
		if rejecting && t.alpha && t.e > w.cur {
			w.h.Mark("tick-refused-by-subscriber")
		}
		return false
	}
	w.cur = t.e
	w.current = preCand
	w.ticked[t.e] = preNode2
	// notifications: one NewEpoch(e) from netmap, one ProbeEpoch(e) per subscribed probe in subscription order
	var probeOrder []int
	newEpochEvents := 0
	for _, e := range o.Events {
		if e.ScriptHash == w.nm && e.Name == "NewEpoch" {
			newEpochEvents++
			if chainkit.ItemInt(chainkit.ItemArr(e.Item)[0]) != t.e {
				fail("C06: NewEpoch notification carries %s, expected %d", chainkit.ItemString(e.Item), t.e)
			}
		}
		if i := w.isProbe(e.ScriptHash); i >= 0 && e.Name == "ProbeEpoch" {
			if chainkit.ItemInt(chainkit.ItemArr(e.Item)[0]) != t.e {
				fail("C06: subscriber %d was called with epoch %s, expected %d", i, chainkit.ItemString(e.Item), t.e)
			}
			probeOrder = append(probeOrder, i)
		}
	}
	if newEpochEvents != 1 {
		fail("C06: successful tick emitted %d NewEpoch notifications", newEpochEvents)
	}
	var wantOrder []int
	for _, s := range w.subs {
		if i := w.isProbe(s); i >= 0 {
			wantOrder = append(wantOrder, i)
		}
	}
	if fmt.Sprint(probeOrder) != fmt.Sprint(wantOrder) {
		fail("C06: subscribers were called in order %v, subscription order is %v", probeOrder, wantOrder)
	}
	if len(w.subs) >= 2 && len(wantOrder) >= 1 {
		w.h.Mark("tick-ok-multi-subscriber")
		if len(preCand)+len(preNode2) > 0 {
			w.h.Mark("tick-ok-multi-subscriber-nonempty")
		}
	}
	w.h.Mark("tick-ok")
	if !lastOfBlock {
		return true
	}
	// state reads (only meaningful after the last transaction of the block)
	if v, ok := w.call("epoch").Int(); !ok || v != w.cur {
		fail("C06: epoch() = %d after successful newEpoch(%d)", v, w.cur)
	}
	if v, ok := w.call("lastEpochBlock").Int(); !ok || !(v == int64(o.Block)-1 || v == int64(o.Block)) {
		fail("C06: lastEpochBlock() = %d, the tick was in block %d", v, o.Block)
	}
	return true
}

func (w *c06World) checkPublished(what string) {
	w.expectList("C06", "netmap() after "+what, w.call("netmap"), w.current)
	w.expectList("C06", "snapshot(0) after "+what, w.call("snapshot", 0), w.current)
	if w.cur > 0 {
		w.expectList("C06", fmt.Sprintf("snapshotByEpoch(%d) after %s", w.cur, what), w.call("snapshotByEpoch", w.cur), w.current)
		w.expectList("C06", fmt.Sprintf("listNodes(%d) after %s", w.cur, what), w.call("listNodes", w.cur), w.ticked[w.cur])
		w.expectList("C06", "listNodes() after "+what, w.call("listNodes"), w.ticked[w.cur])
	}
	if v, ok := w.call("epoch").Int(); !ok || v != w.cur {
		fail("C06: epoch() = %d, expected %d after %s", v, w.cur, what)
	}
}

func TestC06Stateful(t *testing.T) {
	theT = t
	col := ev.New("C06", "stateful",
		"rapid state machine over candidate changes (legacy+structured), subscribeForNewEpoch (4 probe subscribers, duplicates, Balance again, a contract without newEpoch, missing Alphabet witness; one world in three is Netmap alone, so that no subscriber of the repository re-checks the witness behind it), probe reject flags, and blocks of 1..3 newEpoch transactions with epochs cur-1/cur/cur+1/cur+k (k up to 2^24, epochs below 2^31, so that the epoch number passes the one-, two- and three-byte boundaries) with and without Alphabet witness; per transaction: success iff Alphabet and e>cur and no subscriber rejects; full snapshot diff empty on refusal; publication of the pre-tick candidates in both formats, candidates unchanged, lastEpochBlock, one NewEpoch event, one ProbeEpoch per probe in subscription order, delivery counters +1, a due Balance lock released once; non-trivial = a successful tick with >=2 subscribers (>=1 probe) and a non-empty candidate set after at least one refused tick",
		"the expected publication is the candidate set observed immediately before the tick (metamorphic oracle; candidate semantics themselves are C07)")
	runRapid(t, col, func(rt *rapid.T, h *ev.History) {
		n := rapid.SampledFrom([]int{1, 1, 3}).Draw(rt, "n")
		standalone := rapid.IntRange(0, 2).Draw(rt, "netmapAlone") == 0
		drawValidators(rt, h, n)
		w := newC06World(n, h, standalone)
		if standalone {
			h.Mark("netmap-without-balance")
		}
		defer w.close()
		w.c.FixedSysFee = 60_0000_0000
		alpha := w.alpha
		steps := rapid.IntRange(2, 25).Draw(rt, "steps")
		marker := 0
		for i := 0; i < steps; i++ {
			switch rapid.SampledFrom([]string{"cand", "cand", "subscribe", "subscribe", "reject", "tick", "tick", "tick", "tick", "lock", "resize"}).Draw(rt, "kind") {
			case "resize":
				// the number of retained maps is configuration: a tick must publish under any accepted count (C08 judges what
				// is retained; here only the newest map and the current lists are read)
				n := rapid.SampledFrom([]int64{1, 2, 3, 5, 9, 10, 11, 15}).Draw(rt, "count")
				o := w.c.Invoke(alpha, w.nm, "updateSnapshotCount", n)
				h.Op("updateSnapshotCount(%d) -> %s", n, o)
				if o.Halt {
					h.Mark("snapshot-count-changed")
				}
				w.checkPublished(fmt.Sprintf("updateSnapshotCount(%d)", n))
			case "cand":
				marker++
				k := rapid.IntRange(0, 2).Draw(rt, "key")
				var o *chainkit.Outcome
				switch rapid.SampledFrom([]string{"addPeerIR", "addNode", "maintenance", "online", "delete"}).Draw(rt, "candOp") {
				case "addPeerIR":
					o = w.c.Invoke(alpha, w.nm, "addPeerIR", legacyInfo(w.pub(k), marker))
				case "addNode":
					o = w.c.Invoke([]neotest.Signer{w.nodes[k], w.c.Alphabet}, w.nm, "addNode", node2Item(w.pub(k), marker, 1))
				case "maintenance":
					o = w.c.Invoke(alpha, w.nm, "updateStateIR", 3, w.pub(k))
				case "online":
					o = w.c.Invoke(alpha, w.nm, "updateStateIR", 1, w.pub(k))
				default:
					o = w.c.Invoke(alpha, w.nm, "deleteNode", w.pub(k))
				}
				h.Op("candidate op key=%d marker=%d -> %s", k, marker, o)
				w.checkPublished("a candidate change")
			case "subscribe":
				pool := append(append([]util.Uint160{}, w.probes...), w.noEpoch)
				if !standalone {
					pool = append(pool, w.bal)
				}
				target := rapid.SampledFrom(pool).Draw(rt, "target")
				withAlpha := rapid.IntRange(0, 5).Draw(rt, "noAlpha") != 0
				var signers []neotest.Signer
				if withAlpha {
					signers = alpha
				} else {
					signers = deficientSigners(rt, w.c, w.nodes[0])
				}
				pre := w.c.Snapshot()
				o := w.c.Invoke(signers, w.nm, "subscribeForNewEpoch", target)
				h.Op("subscribeForNewEpoch(%s) alphabet=%v -> %s", target.StringLE()[:6], withAlpha, o)
				want := withAlpha && target != w.noEpoch
				if want != o.Halt {
					fail("C06: subscribeForNewEpoch alphabet=%v hasNewEpoch=%v: got %s", withAlpha, target != w.noEpoch, o)
				}
				isNew := o.Halt && !w.subscribed(target)
				if o.Halt && !isNew {
					h.Mark("double-subscription")
				}
				if !isNew {
					if d := chainkit.Diff(pre, w.c.Snapshot()); len(d) != 0 {
						fail("C06: a refused or repeated subscription changed state: %v", d)
					}
					if len(chainkit.EventsNamed(o.Events, "NewEpochSubscription")) != 0 {
						fail("C06: a repeated subscription emitted NewEpochSubscription")
					}
				} else {
					w.subs = append(w.subs, target)
					if len(chainkit.EventsNamed(o.Events, "NewEpochSubscription")) != 1 {
						fail("C06: a new subscription emitted %d NewEpochSubscription notifications", len(chainkit.EventsNamed(o.Events, "NewEpochSubscription")))
					}
				}
			case "reject":
				i := rapid.IntRange(0, len(w.probes)-1).Draw(rt, "probe")
				on := rapid.Bool().Draw(rt, "on")
				o := w.c.Invoke(nil, w.probes[i], "setReject", on)
				if !o.Halt {
					fail("C06 harness: setReject: %s", o)
				}
				w.reject[w.probes[i]] = on
				h.Op("probe %d reject=%v", i, on)
			case "lock":
				if standalone {
					break
				}
				// a Balance lock that is due at the next epoch: lets the tick's effect in Balance be observed
				w.lockSeq++
				var user util.Uint160
				copy(user[:], []byte(fmt.Sprintf("c06-user-%011d", w.lockSeq)))
				var lk util.Uint160
				copy(lk[:], []byte(fmt.Sprintf("c06-lock-%011d", w.lockSeq)))
				if o := w.c.Invoke(alpha, w.bal, "mint", user, 10, []byte("m")); !o.Halt {
					fail("C06 harness: mint: %s", o)
				}
				if o := w.c.Invoke(alpha, w.bal, "lock", []byte("d"), user, lk, 10, w.cur+1); !o.Halt {
					fail("C06 harness: lock: %s", o)
				}
				h.Op("lock 10 of user%d until %d", w.lockSeq, w.cur+1)
				h.Mark("balance-lock")
			case "tick":
				k := rapid.IntRange(1, 3).Draw(rt, "txInBlock")
				var txs []tickTx
				for j := 0; j < k; j++ {
					d := rapid.SampledFrom([]int{-1, 0, 1, 1, 1, 1, 1, 2, 5, 5, 120, 250, 65530, 1 << 24}).Draw(rt, "epochDelta")
					if w.cur+int64(d) >= 1<<31 {
						d = 1 // (epoch numbers stay within 31 bits: the structured lists are keyed by four bytes)
					}
					withAlpha := rapid.IntRange(0, 6).Draw(rt, "noAlpha") != 0
					e := w.cur + int64(d)
					signers := alpha
					if !withAlpha {
						signers = deficientSigners(rt, w.c, w.nodes[1])
					}
					scoped := withAlpha && rapid.IntRange(0, 5).Draw(rt, "calledByEntry") == 0
					if scoped {
						w.c.NextScope = transaction.CalledByEntry
					}
					txs = append(txs, tickTx{e: e, alpha: withAlpha, scoped: scoped, tx: w.c.Prepare(signers, w.nm, "newEpoch", e)})
				}
				preCand := w.listStrings("netmapCandidates")
				preNode2 := w.listStrings("listCandidates")
				calls := make([]int64, len(w.probes))
				for pi := range w.probes {
					calls[pi] = w.probeCalls(pi)
				}
				lockDue := w.lockSeq
				pre := w.c.Snapshot()
				raw := make([]*transaction.Transaction, len(txs))
				for j := range txs {
					raw[j] = txs[j].tx
				}
				outs := w.c.InvokeBlock(0, raw...)
				successes := int64(0)
				for j := range txs {
					h.Op("block tx %d/%d: newEpoch(%d) alphabet=%v at epoch %d -> %s", j+1, k, txs[j].e, txs[j].alpha, w.cur, outs[j])
					if w.afterTick(txs[j], outs[j], preCand, preNode2, calls, j == len(txs)-1) {
						successes++
					}
				}
				if successes == 0 {
					if d := chainkit.Diff(pre, w.c.Snapshot()); len(d) != 0 {
						fail("C06: refused tick(s) changed state: %v", d)
					}
				} else {
					// candidates unchanged by the tick
					if got := w.listStrings("netmapCandidates"); !sameStrings(got, preCand) {
						fail("C06: tick changed the legacy candidate set: %s -> %s", short(preCand), short(got))
					}
					if got := w.listStrings("listCandidates"); !sameStrings(got, preNode2) {
						fail("C06: tick changed the structured candidate set")
					}
					// every subscribed probe got exactly one call per successful tick
					for pi := range w.probes {
						want := calls[pi]
						if w.subscribed(w.probes[pi]) {
							want += successes
						}
						if got := w.probeCalls(pi); got != want {
							fail("C06: probe %d received %d calls for %d successful tick(s) (subscribed=%v)", pi, got-calls[pi], successes, w.subscribed(w.probes[pi]))
						}
					}
					// Balance (subscriber #0) saw the tick: all locks due are released
					for s := 1; s <= lockDue; s++ {
						var lk util.Uint160
						copy(lk[:], []byte(fmt.Sprintf("c06-lock-%011d", s)))
						if v, _ := w.c.Call(nil, w.bal, "balanceOf", lk).Int(); v != 0 {
							fail("C06: Balance lock %d due before epoch %d still holds %d after the tick (Balance was not called)", s, w.cur, v)
						}
						var user util.Uint160
						copy(user[:], []byte(fmt.Sprintf("c06-user-%011d", s)))
						if v, _ := w.c.Call(nil, w.bal, "balanceOf", user).Int(); v != 10 {
							fail("C06: user %d has %d after the release, expected 10 (released exactly once)", s, v)
						}
					}
				}
				w.checkPublished("a tick block")
			}
		}
		if h.Has("tick-ok-multi-subscriber-nonempty") && h.Has("tick-refused") {
			h.NonTrivial()
		}
	})
}
