package props

import (
	"strings"
	"testing"
	"verif/harness/chainkit"

	"github.com/nspcc-dev/neo-go/pkg/neotest"
	"github.com/nspcc-dev/neo-go/pkg/util"
	"pgregory.net/rapid"

	"verif/harness/ev"
)

var nnsUniverse = []string{"com", "org", "a.com", "b.com", "a.org", "a.a.com", "b.a.com", "a.b.com", "a.a.a.com", "a.a.org"}

// drawDelta draws the timestamp offset of the next block: usually +1 ms,
// sometimes exactly onto exp-1 / exp / exp+1 of a known name.
func drawDelta(rt *rapid.T, r *nnsRun) int64 {
	if rapid.IntRange(0, 3).Draw(rt, "jump") != 0 || len(r.m.names) == 0 {
		return 1
	}
	var known []string
	now := int64(r.c.Now())
	for _, n := range nnsUniverse {
		// prefer names that expire within a few seconds: those are the boundaries worth visiting
		if nm, ok := r.m.names[n]; ok && nm.exp > now && nm.exp-now < 20000 {
			known = append(known, n)
		}
	}
	if len(known) == 0 {
		return 1
	}
	n := r.m.names[rapid.SampledFrom(known).Draw(rt, "jumpName")]
	target := n.exp + int64(rapid.SampledFrom([]int{-1, 0, 0, 1}).Draw(rt, "jumpOffset"))
	d := target - int64(r.c.Now())
	if d < 1 {
		return 1
	}
	r.h.Mark("time-jump-to-expiration-boundary")
	return d
}

func TestC10Stateful(t *testing.T) {
	theT = t
	col := ev.New("C10", "stateful",
		"rapid state machine with a harness-owned clock over registerTLD/register (levels 2..4 under com/org, lifetimes 1/2/5/1000 s and 1 year)/transfer (to other users, to self, to a contract, to a contract that transfers the name on from its payment callback; one in three with another spelling of the token id - trailing root dot, upper-case first letter - which must be refused or be a complete transfer of the name)/renew 1..10 years/setAdmin, every call made by properly authorised signers (except one registration in six, made on behalf of an owner who does not sign - refused whether the name is new, live or expired), each block placed at now+1 ms or exactly at exp-1/exp/exp+1 of a known name; after every step totalSupply, balanceOf and tokensOf of every owner, and isAvailable/ownerOf/properties of all 10 names of the universe at now+1 and at exp-1/exp/exp+1 of each name are compared with the ownership model; Transfer/Renew notifications per transaction are exact; non-trivial = a takeover of an expired name by a different owner or an operation placed exactly at an expiration instant",
		"isAvailable of an unexpired name under an expired parent is don't-care (statement silent)", "calls are authorised as C11 demands (authorisation itself is C11)")
	runRapid(t, col, func(rt *rapid.T, h *ev.History) {
		w := newNnsWorld(1, h)
		defer w.close()
		w.withActor()
		r := newNnsRun(w, "C10")
		owners := []util.Uint160{w.users[0].ScriptHash(), w.users[1].ScriptHash(), w.users[2].ScriptHash(), w.actor}
		committee := who{signers: w.committee, desc: "committee"}
		as := func(o util.Uint160) who {
			for i, u := range w.users {
				if u.ScriptHash() == o {
					return who{signers: []neotest.Signer{u}, desc: w.names[o]}
				}
				_ = i
			}
			return who{signers: []neotest.Signer{w.users[0]}, viaActor: true, desc: "actor"}
		}
		// ownerWho returns a signer set carrying the witness of the name's owner (committee for TLDs).
		ownerWho := func(name string) (who, bool) {
			n, ok := r.m.names[name]
			if !ok {
				return who{}, false
			}
			if len(n.owner) == 0 {
				return committee, true
			}
			var u util.Uint160
			copy(u[:], n.owner)
			return as(u), true
		}
		lifetimes := []int64{1, 2, 5, 1000, 365 * 24 * 3600}
		r.opRegisterTLD(committee, 1, "com", rapid.SampledFrom([]int64{5, hundredYearsSec, hundredYearsSec, hundredYearsSec}).Draw(rt, "comLife"))
		// pick draws a name of the universe, preferring registered non-TLD names
		pick := func(label string, from []string) string {
			var have []string
			for _, n := range from {
				if nm, ok := r.m.names[n]; ok && !nm.tld {
					have = append(have, n)
				}
			}
			if len(have) > 0 && rapid.IntRange(0, 4).Draw(rt, label+"Known") != 0 {
				return rapid.SampledFrom(have).Draw(rt, label)
			}
			return rapid.SampledFrom(from).Draw(rt, label)
		}
		// pickNew prefers names whose parent is registered
		pickNew := func(label string) string {
			var cand []string
			for _, n := range nnsUniverse[2:] {
				if _, ok := r.m.names[parentOf(n)]; ok {
					cand = append(cand, n)
				}
			}
			if len(cand) > 0 && rapid.IntRange(0, 5).Draw(rt, label+"Parent") != 0 {
				return rapid.SampledFrom(cand).Draw(rt, label)
			}
			return rapid.SampledFrom(nnsUniverse[2:]).Draw(rt, label)
		}
		var forwarder util.Uint160
		steps := rapid.IntRange(2, 30).Draw(rt, "steps")
		for s := 0; s < steps; s++ {
			delta := drawDelta(rt, r)
			switch rapid.SampledFrom([]string{"register", "register", "register", "transfer", "transfer", "renew", "setAdmin", "tld"}).Draw(rt, "kind") {
			case "tld":
				r.opRegisterTLD(committee, delta, rapid.SampledFrom([]string{"com", "org"}).Draw(rt, "tld"), rapid.SampledFrom([]int64{2, 5, 1000, hundredYearsSec}).Draw(rt, "life"))
			case "register":
				name := pickNew("name")
				owner := rapid.SampledFrom(owners).Draw(rt, "owner")
				wh := as(owner)
				if rapid.IntRange(0, 5).Draw(rt, "onBehalfWithoutWitness") == 0 {
					// somebody else registers (or takes over an expired name) for an owner who does not sign: refused,
					// whether the name is new, live or expired
					wh = as(owners[(indexOf(owners, owner)+1)%3])
					h.Mark("register-on-behalf-without-the-owner's-witness")
				}
				if levelOf(name) > 2 {
					// add the witness of the parent's owner
					if pw, ok := ownerWho(parentOf(name)); ok {
						wh.signers = append(wh.signers, pw.signers...)
						wh.viaActor = wh.viaActor || pw.viaActor
						wh.desc += "+" + pw.desc
					}
				}
				life := rapid.SampledFrom(lifetimes).Draw(rt, "life")
				if rapid.IntRange(0, 6).Draw(rt, "byForwardingContract") == 0 {
					if forwarder == (util.Uint160{}) {
						forwarder = r.c.Deploy(chainkit.Probe("reenter", ""), nil)
						r.names[forwarder] = "forwarder"
						owners = append(owners, forwarder)
					}
					if r.opRegisterForward(wh, delta, name, forwarder, rapid.SampledFrom(owners[:3]).Draw(rt, "finalOwner"), life) {
						break
					}
				}
				r.opRegister(wh, delta, name, owner, life)
			case "transfer":
				name := pick("name", nnsUniverse[2:])
				wh, ok := ownerWho(name)
				if !ok {
					wh = as(owners[0])
				}
				to := rapid.SampledFrom(owners).Draw(rt, "to")
				switch rapid.IntRange(0, 6).Draw(rt, "idSpelling") {
				case 6:
					if forwarder == (util.Uint160{}) {
						forwarder = r.c.Deploy(chainkit.Probe("reenter", ""), nil)
						r.names[forwarder] = "forwarder"
						owners = append(owners, forwarder)
					}
					r.opTransferForward(wh, delta, name, forwarder, rapid.SampledFrom(owners[:3]).Draw(rt, "finalOwner"))
				case 0:
					r.opTransferAlias(wh, delta, name, name+".", to)
				case 1:
					r.opTransferAlias(wh, delta, name, strings.ToUpper(name[:1])+name[1:], to)
				default:
					r.opTransfer(wh, delta, name, to)
				}
			case "renew":
				name := pick("name", nnsUniverse)
				wh, ok := ownerWho(name)
				if !ok {
					wh = as(owners[0])
				}
				r.opRenew(wh, delta, name, int64(rapid.SampledFrom([]int{1, 1, 2, 9, 10, 10, 0, 11}).Draw(rt, "years")))
			case "setAdmin":
				name := pick("name", nnsUniverse[2:])
				wh, ok := ownerWho(name)
				if !ok {
					wh = as(owners[0])
				}
				adm := rapid.SampledFrom(owners[:3]).Draw(rt, "admin")
				aw := as(adm)
				wh.signers = append(wh.signers, aw.signers...)
				wh.desc += "+" + aw.desc
				r.opSetAdmin(wh, delta, name, &adm)
			}
			what := h.Ops[len(h.Ops)-1]
			r.readAccounting(owners, what)
			now := int64(r.c.Now())
			for _, name := range nnsUniverse {
				times := []int64{now + 1}
				if n, ok := r.m.names[name]; ok {
					for _, d := range []int64{-1, 0, 1} {
						if n.exp+d > now {
							times = append(times, n.exp+d)
						}
					}
				}
				for _, tt := range times {
					r.readName(name, tt, what)
				}
			}
		}
		if h.Has("takeover-by-different-owner") || h.Has("op-at-exact-expiration") {
			h.NonTrivial()
		}
	})
}

func indexOf(list []util.Uint160, x util.Uint160) int {
	for i := range list {
		if list[i] == x {
			return i
		}
	}
	return 0
}
