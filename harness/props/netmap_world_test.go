package props

import (
	"fmt"
	"sort"
	"strings"

	"github.com/nspcc-dev/neo-go/pkg/neotest"
	"github.com/nspcc-dev/neo-go/pkg/util"
	"github.com/nspcc-dev/neo-go/pkg/vm/stackitem"

	"verif/harness/chainkit"
	"verif/harness/ev"
)

// nmWorld is the Netmap fixture shared by C06, C07, C08 and C20.
type nmWorld struct {
	c     *chainkit.Chain
	fs    *chainkit.FS
	nm    util.Uint160
	h     *ev.History
	nodes []neotest.SingleSigner // storage node keys
	alpha []neotest.Signer
}

func newNmWorld(n int, h *ev.History, contracts ...string) *nmWorld {
	c := chainkit.NewChain(theT, n, chainkit.Options{Validators: takeValidators()})
	if len(contracts) == 0 {
		contracts = []string{"netmap"}
	}
	fs := chainkit.NewFS(c, chainkit.FSOptions{Contracts: contracts})
	w := &nmWorld{c: c, fs: fs, nm: fs.H["netmap"], h: h, alpha: []neotest.Signer{c.Alphabet}}
	for i := 0; i < 5; i++ {
		w.nodes = append(w.nodes, chainkit.NamedUser(fmt.Sprintf("node-%d", i)))
	}
	return w
}

func (w *nmWorld) close() { w.c.Close() }

func (w *nmWorld) pub(i int) []byte { return w.nodes[i].Account().PublicKey().Bytes() }

// legacyInfo builds a NeoFS-API-like binary node info: the public key sits at
// bytes 2..35 (that is all the contract looks at); marker makes blobs distinct.
func legacyInfo(pub []byte, marker int) []byte {
	b := make([]byte, 66)
	b[0] = 0x0a
	b[1] = 0x21
	copy(b[2:], pub)
	b[35] = byte(marker)
	b[36] = byte(marker >> 8)
	b[37] = 0x77
	return b
}

// node2Item builds the Node2 structure argument of addNode.
func node2Item(pub []byte, marker int, state int) stackitem.Item {
	return stackitem.NewStruct([]stackitem.Item{
		stackitem.NewArray([]stackitem.Item{stackitem.Make(fmt.Sprintf("grpcs://node:%d", marker))}),
		stackitem.NewMapWithValue([]stackitem.MapElement{
			{Key: stackitem.Make("Capacity"), Value: stackitem.Make(fmt.Sprint(1000 + marker))},
			{Key: stackitem.Make("m"), Value: stackitem.Make(fmt.Sprint(marker))},
		}),
		stackitem.NewByteArray(pub),
		stackitem.Make(state),
	})
}

// legacyNodeString is how a legacy Node{BLOB,State} renders with ItemString.
func legacyNodeString(blob []byte, state int) string {
	return chainkit.ItemString(stackitem.NewStruct([]stackitem.Item{stackitem.NewByteArray(blob), stackitem.Make(state)}))
}

// renderList renders the elements of an array result as a sorted multiset.
func renderList(o *chainkit.Outcome) ([]string, bool) {
	arr, ok := o.Array()
	if !ok {
		return nil, false
	}
	res := make([]string, len(arr))
	for i := range arr {
		res[i] = chainkit.ItemString(arr[i])
	}
	sort.Strings(res)
	return res, true
}

func sameStrings(a, b []string) bool {
	if len(a) != len(b) {
		return false
	}
	for i := range a {
		if a[i] != b[i] {
			return false
		}
	}
	return true
}

func sorted(a []string) []string {
	b := append([]string{}, a...)
	sort.Strings(b)
	return b
}

func short(a []string) string {
	s := strings.Join(a, ";")
	if len(s) > 300 {
		return s[:300] + "..."
	}
	return s
}

func (w *nmWorld) call(method string, args ...any) *chainkit.Outcome {
	return w.c.Call(nil, w.nm, method, args...)
}

// expectList requires the call to return exactly want (as a multiset); when
// want is nil the call must return an empty list or fault ("nothing").
func (w *nmWorld) expectList(prop, what string, o *chainkit.Outcome, want []string) {
	if want == nil {
		if !o.Halt {
			return
		}
		got, ok := renderList(o)
		if !ok {
			fail("%s: %s returned a non-list: %s", prop, what, o)
		}
		if len(got) != 0 {
			fail("%s: %s must return nothing but returned %s", prop, what, short(got))
		}
		return
	}
	if !o.Halt {
		fail("%s: %s failed (%s) but must return %s", prop, what, o.Fault, short(want))
	}
	got, ok := renderList(o)
	if !ok {
		fail("%s: %s returned a non-list: %s", prop, what, o)
	}
	if !sameStrings(got, sorted(want)) {
		fail("%s: %s returned %s, expected %s", prop, what, short(got), short(sorted(want)))
	}
}
