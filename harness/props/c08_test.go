package props

import (
	"fmt"
	"os"
	"sort"
	"testing"

	"github.com/nspcc-dev/neo-go/pkg/neotest"
	"pgregory.net/rapid"

	"verif/harness/chainkit"
	"verif/harness/ev"
)

// histModel is the reference model of C08: the set of epochs whose map is
// still retrievable.
type histModel struct {
	n        int          // snapshot count
	cur      int          // current epoch
	retained map[int]bool // epochs whose published map must be readable
	empty    map[int]bool // epochs that published an empty map (both formats)
}

func (m *histModel) tick() {
	m.cur++
	m.retained[m.cur] = true
	for e := range m.retained {
		if e <= m.cur-m.n {
			delete(m.retained, e)
		}
	}
}

func (m *histModel) resize(newN int) {
	keep := m.n
	if newN < keep {
		keep = newN
	}
	var es []int
	for e := range m.retained {
		es = append(es, e)
	}
	sort.Sort(sort.Reverse(sort.IntSlice(es)))
	for i, e := range es {
		if i >= keep {
			delete(m.retained, e)
		}
	}
	m.n = newN
}

// tickEmpty takes both candidates out of the network before the tick: the new epoch publishes empty maps.
func (w *c08World) tickEmpty() {
	e := w.m.cur + 1
	for _, i := range []int{0, 1} {
		// (a candidate that is not there: the contract may refuse - nothing to remove)
		w.c.Invoke(w.alpha, w.nm, "updateStateIR", 2, w.pub(i))
	}
	o := w.c.Invoke(w.alpha, w.nm, "newEpoch", e)
	w.h.Op("tick -> epoch %d with an empty network map (count %d): %s", e, w.m.n, o)
	if !o.Halt {
		fail("C08: count %d was accepted but newEpoch(%d) fails: %s", w.m.n, e, o.Fault)
	}
	w.m.tick()
	w.m.empty[e] = true
	w.h.Mark("empty-map-epoch")
}

// c08World drives one history.
type c08World struct {
	*nmWorld
	m *histModel
}

func newC08World(h *ev.History) *c08World {
	w := &c08World{nmWorld: newNmWorld(1, h)}
	w.m = &histModel{n: 10, retained: map[int]bool{}, empty: map[int]bool{}}
	return w
}

// tick publishes a map that is unique for the new epoch (one legacy and one
// structured candidate, both rewritten before every tick) and ticks by one.
func (w *c08World) tick() {
	e := w.m.cur + 1
	if o := w.c.Invoke(w.alpha, w.nm, "addPeerIR", legacyInfo(w.pub(0), e)); !o.Halt {
		fail("C08 harness: addPeerIR failed: %s", o)
	}
	if o := w.c.Invoke([]neotest.Signer{w.nodes[1], w.c.Alphabet}, w.nm, "addNode", node2Item(w.pub(1), e, 1)); !o.Halt {
		fail("C08 harness: addNode failed: %s", o)
	}
	o := w.c.Invoke(w.alpha, w.nm, "newEpoch", e)
	w.h.Op("tick -> epoch %d (count %d): %s", e, w.m.n, o)
	if !o.Halt {
		fail("C08: count %d was accepted but newEpoch(%d) fails: %s", w.m.n, e, o.Fault)
	}
	w.m.tick()
}

// resize calls updateSnapshotCount; returns whether the contract accepted it.
func (w *c08World) resize(n int) bool {
	o := w.c.Invoke(w.alpha, w.nm, "updateSnapshotCount", n)
	w.h.Op("updateSnapshotCount(%d) at epoch %d with count %d: %s", n, w.m.cur, w.m.n, o)
	if !o.Halt {
		return false
	}
	if n < 0 {
		fail("C08: negative count %d accepted", n)
	}
	w.m.resize(n)
	return true
}

func (w *c08World) checkAll(what string) {
	m := w.m
	legacy := func(e int) []string {
		if e >= 1 && m.retained[e] && !m.empty[e] {
			return []string{legacyNodeString(legacyInfo(w.pub(0), e), 1)}
		}
		return nil
	}
	structured := func(e int) []string {
		if e >= 1 && m.retained[e] && !m.empty[e] {
			return []string{chainkit.ItemString(node2Item(w.pub(1), e, 1))}
		}
		return nil
	}
	for d := -1; d <= 14; d++ {
		var want []string
		if d >= 0 && d < m.n {
			want = legacy(m.cur - d)
		}
		w.expectList("C08", fmt.Sprintf("snapshot(%d) at epoch %d with count %d after %s", d, m.cur, m.n, what), w.call("snapshot", d), want)
	}
	for e := 0; e <= m.cur+2; e++ {
		var want []string
		if e <= m.cur && m.cur-e < m.n {
			want = legacy(e)
		}
		w.expectList("C08", fmt.Sprintf("snapshotByEpoch(%d) at epoch %d with count %d after %s", e, m.cur, m.n, what), w.call("snapshotByEpoch", e), want)
		w.expectList("C08", fmt.Sprintf("listNodes(%d) at epoch %d with count %d after %s", e, m.cur, m.n, what), w.call("listNodes", e), structured(e))
	}
	// epochs a power of 256 away from the current one (their 4-byte keys share low bytes with it): future epochs, nothing stored
	for _, far := range []int{1 << 8, 1 << 16, 1 << 24} {
		e := m.cur + far
		w.expectList("C08", fmt.Sprintf("snapshotByEpoch(%d) at epoch %d with count %d after %s", e, m.cur, m.n, what), w.call("snapshotByEpoch", e), nil)
		w.expectList("C08", fmt.Sprintf("listNodes(%d) at epoch %d with count %d after %s", e, m.cur, m.n, what), w.call("listNodes", e), nil)
	}
	if m.cur >= 1 && m.n >= 1 {
		w.expectList("C08", "netmap() after "+what, w.call("netmap"), legacy(m.cur))
	}
}

// TestC08Exhaustive enumerates every single resize in the bounded scope.
func TestC08Exhaustive(t *testing.T) {
	theT = t
	col := ev.New("C08", "exhaustive",
		"complete enumeration of (old count 1..12, new count 0..12, elapsed consecutive epochs 0..30): set old count, tick elapsed times (each epoch publishes a unique legacy + structured map), resize, tick new+2 more times; after the last pre-resize step, after the resize and after every later tick all of snapshot(d) d=-1..14, snapshotByEpoch(e) and listNodes(e) e=0..cur+2 are compared with the retained-epochs model; non-trivial = elapsed > min(old,new) (something had to be dropped or moved)",
		"epochs advance by one per tick (as the Inner Ring does)", "resize to the current count or to a refused count is a no-op")
	defer func() { col.Flush(true) }()
	nshards, shard := envInt("VERIF_NSHARDS", 1), envInt("VERIF_SHARD_INDEX", 0)
	elapsedMax := 30
	stride := 1
	if !ev.Thorough() {
		stride = envInt("VERIF_C08_STRIDE", 1)
	}
	idx := -1
	for old := 1; old <= 12; old++ {
		for nw := 0; nw <= 12; nw++ {
			for elapsed := 0; elapsed <= elapsedMax; elapsed += stride {
				idx++
				if idx%nshards != shard {
					continue
				}
				h := ev.NewHistory()
				h.Op("old=%d new=%d elapsed=%d", old, nw, elapsed)
				ok := runCase(t, col, h, func() {
					w := newC08World(h)
					defer w.close()
					if old != 10 {
						if !w.resize(old) {
							fail("C08: initial resize 10->%d refused", old)
						}
					}
					for i := 0; i < elapsed; i++ {
						w.tick()
					}
					w.checkAll("the pre-resize ticks")
					accepted := w.resize(nw)
					if accepted {
						h.Mark("resize-accepted")
					} else {
						h.Mark("resize-refused")
					}
					w.checkAll("the resize")
					for i := 0; i < nw+2; i++ {
						w.tick()
						w.checkAll(fmt.Sprintf("follow-up tick %d", i+1))
					}
					mn := old
					if nw < mn {
						mn = nw
					}
					if accepted && elapsed > mn {
						h.NonTrivial()
					}
				})
				if !ok && os.Getenv("VERIF_KEEP_GOING") == "" {
					return
				}
			}
		}
	}
	col.SetExhaustive(stride == 1)
}

// TestC08Random explores longer histories with several resizes.
// TestC08LongRun: the history keeps working when the epoch number outgrows one byte.
func TestC08LongRun(t *testing.T) {
	theT = t
	col := ev.New("C08", "long-run",
		"enumeration: counts {3} (thorough: {3, 10}) x consecutive ticks from epoch 1 to 260 (the epoch number passes 127/128 and 255/256, where its encodings grow), all three read paths compared with the retained-epochs model at epochs 126..130 and 253..260, with a resize (count+1, then back) at epoch 256; non-trivial = every case")
	defer func() { col.Flush(true) }()
	nshards, shard := envInt("VERIF_NSHARDS", 1), envInt("VERIF_SHARD_INDEX", 0)
	counts := []int{3}
	if ev.Thorough() {
		counts = []int{3, 10}
	}
	for i, cnt := range counts {
		if i%nshards != shard {
			continue
		}
		h := ev.NewHistory()
		h.Op("count %d, 260 consecutive ticks", cnt)
		if !runCase(t, col, h, func() {
			w := newC08World(h)
			defer w.close()
			if cnt != 10 && !w.resize(cnt) {
				fail("C08: resize to %d refused on a fresh contract", cnt)
			}
			for e := 1; e <= 260; e++ {
				w.tick()
				if (e >= 126 && e <= 130) || e >= 253 {
					w.checkAll(fmt.Sprintf("tick to %d", e))
				}
				if e == 256 {
					if w.resize(cnt + 1) {
						w.checkAll("resize at 256")
					}
				}
				if e == 258 {
					if w.resize(cnt) {
						w.checkAll("resize back at 258")
					}
				}
			}
			h.NonTrivial()
		}) {
			return
		}
	}
	col.SetExhaustive(true)
}

func TestC08Random(t *testing.T) {
	theT = t
	col := ev.New("C08", "random",
		"rapid: up to 60 steps of consecutive ticks (one in six publishing an empty network map) and updateSnapshotCount(-1..12) in any order, all three read paths compared with the retained-epochs model after every resize and every tick that follows a resize within count+2 steps (and at the end); non-trivial = at least two accepted resizes with ticks in between",
		"epochs advance by one per tick (as the Inner Ring does)")
	runRapid(t, col, func(rt *rapid.T, h *ev.History) {
		w := newC08World(h)
		defer w.close()
		steps := rapid.IntRange(1, 60).Draw(rt, "steps")
		resizes, watch := 0, 0
		ticksBetween := false
		for i := 0; i < steps; i++ {
			if rapid.IntRange(0, 5).Draw(rt, "isResize") == 0 {
				n := rapid.IntRange(-1, 12).Draw(rt, "count")
				if w.resize(n) {
					resizes++
					if resizes >= 2 && ticksBetween {
						h.NonTrivial()
					}
					ticksBetween = false
					watch = n + 2
				}
				w.checkAll(fmt.Sprintf("resize to %d", n))
			} else {
				if rapid.IntRange(0, 5).Draw(rt, "emptyMap") == 0 {
					w.tickEmpty()
				} else {
					w.tick()
				}
				ticksBetween = true
				if watch > 0 {
					watch--
					w.checkAll("tick")
				}
			}
		}
		w.checkAll("the end")
	})
}
