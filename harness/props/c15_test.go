package props

import (
	"bytes"
	"encoding/json"
	"errors"
	"fmt"
	"math/big"
	"os"
	"path/filepath"
	"reflect"
	"strings"
	"testing"

	"github.com/google/uuid"
	"github.com/nspcc-dev/neo-go/pkg/core/transaction"
	"github.com/nspcc-dev/neo-go/pkg/crypto/keys"
	"github.com/nspcc-dev/neo-go/pkg/neorpc/result"
	"github.com/nspcc-dev/neo-go/pkg/neotest"
	"github.com/nspcc-dev/neo-go/pkg/smartcontract/manifest"
	"github.com/nspcc-dev/neo-go/pkg/smartcontract/nef"
	"github.com/nspcc-dev/neo-go/pkg/util"
	"github.com/nspcc-dev/neo-go/pkg/vm"
	"github.com/nspcc-dev/neo-go/pkg/vm/opcode"
	"github.com/nspcc-dev/neo-go/pkg/vm/stackitem"
	"github.com/nspcc-dev/neofs-contract/contracts"
	rpcalphabet "github.com/nspcc-dev/neofs-contract/rpc/alphabet"
	rpcaudit "github.com/nspcc-dev/neofs-contract/rpc/audit"
	rpcbalance "github.com/nspcc-dev/neofs-contract/rpc/balance"
	rpccontainer "github.com/nspcc-dev/neofs-contract/rpc/container"
	rpcneofs "github.com/nspcc-dev/neofs-contract/rpc/neofs"
	rpcneofsid "github.com/nspcc-dev/neofs-contract/rpc/neofsid"
	rpcnetmap "github.com/nspcc-dev/neofs-contract/rpc/netmap"
	rpcnns2 "github.com/nspcc-dev/neofs-contract/rpc/nns"
	rpcprocessing "github.com/nspcc-dev/neofs-contract/rpc/processing"
	rpcproxy "github.com/nspcc-dev/neofs-contract/rpc/proxy"
	rpcreputation "github.com/nspcc-dev/neofs-contract/rpc/reputation"

	"verif/harness/chainkit"
	"verif/harness/ev"
	"verif/harness/regen"
)

var allContracts = []string{"alphabet", "audit", "balance", "container", "neofs", "neofsid", "netmap", "nns", "processing", "proxy", "reputation"}

func firstDiff(a, b []byte) int {
	n := len(a)
	if len(b) < n {
		n = len(b)
	}
	for i := 0; i < n; i++ {
		if a[i] != b[i] {
			return i
		}
	}
	if len(a) != len(b) {
		return n
	}
	return -1
}

// freshArtifacts re-translates one contract (cached per process).
var freshCache = map[string]*regen.Result{}

func fresh(name string) *regen.Result {
	if r, ok := freshCache[name]; ok {
		return r
	}
	r, err := regen.Contract(filepath.Join(chainkit.RepoDir(), "contracts", name))
	if err != nil {
		panic(chainkit.HarnessError{Msg: "C15: cannot re-translate " + name + ": " + err.Error()})
	}
	freshCache[name] = r
	return r
}

// TestC15Artifacts: exhaustive differential re-translation of all 11 contracts.
func TestC15Artifacts(t *testing.T) {
	theT = t
	col := ev.New("C15", "artifacts",
		"all 11 contracts are re-translated from the working tree with the pinned compiler library (neo-go 0.107.0, same options as the Makefile) and compared with what the Go package embeds and what lies in the tree: executable script and method tokens (byte for byte; header fields compiler/source are recorded but not semantic), manifest (semantically: name, groups, features, standards, ABI methods with parameters/return types/offsets/safe flags, events, permissions, trusts, extra), RPC binding text (regenerated from the fresh manifest and bindings config); every contract is one obligation per artefact kind")
	col.SetLevel("translation_validation")
	defer func() { col.Flush(true) }()
	programs, disagreements := 0, 0
	for _, name := range allContracts {
		h := ev.NewHistory()
		h.Op("contract %s", name)
		runCase(t, col, h, func() {
			programs++
			r := fresh(name)
			fn, err := nef.FileFromBytes(r.NEF)
			if err != nil {
				fail("C15: fresh NEF of %s does not parse: %v", name, err)
			}
			emb := chainkit.Embedded(name, "")
			onDisk, err := os.ReadFile(filepath.Join(chainkit.RepoDir(), "contracts", name, "contract.nef"))
			if err != nil {
				fail("C15: %v", err)
			}
			if !bytes.Equal(onDisk, emb.NEFBytes) {
				disagreements++
				fail("C15: the executable of %s embedded in the Go package differs from contracts/%s/contract.nef in the tree", name, name)
			}
			if d := firstDiff(emb.NEF.Script, fn.Script); d >= 0 {
				disagreements++
				fail("C15: the shipped executable of %s is not what the pinned compiler produces from the sources: scripts (%d vs %d bytes) differ at offset %d", name, len(emb.NEF.Script), len(fn.Script), d)
			}
			if !reflect.DeepEqual(emb.NEF.Tokens, fn.Tokens) {
				disagreements++
				fail("C15: method tokens of the shipped executable of %s differ from the pinned compiler's output", name)
			}
			headerNote := ""
			if emb.NEF.Compiler != fn.Compiler || emb.NEF.Source != fn.Source {
				disagreements++
				headerNote = fmt.Sprintf("header differs (compiler %q vs %q): not semantic", emb.NEF.Compiler, fn.Compiler)
			}
			// manifest, semantically
			var fm manifest.Manifest
			if err := json.Unmarshal(r.Manifest, &fm); err != nil {
				fail("C15: fresh manifest of %s: %v", name, err)
			}
			a, _ := json.Marshal(emb.Manifest)
			b, _ := json.Marshal(&fm)
			if !bytes.Equal(a, b) {
				disagreements++
				fail("C15: the shipped manifest of %s differs from the one generated from the sources: %s", name, manifestDiff(emb.Manifest, &fm))
			}
			diskMan, _ := os.ReadFile(filepath.Join(chainkit.RepoDir(), "contracts", name, "manifest.json"))
			var dm manifest.Manifest
			if err := json.Unmarshal(diskMan, &dm); err != nil {
				fail("C15: contracts/%s/manifest.json: %v", name, err)
			}
			if c, _ := json.Marshal(&dm); !bytes.Equal(c, a) {
				disagreements++
				fail("C15: embedded manifest of %s differs from contracts/%s/manifest.json", name, name)
			}
			// binding text
			rp, err := os.ReadFile(filepath.Join(chainkit.RepoDir(), "rpc", name, "rpcbinding.go"))
			if err != nil {
				fail("C15: %v", err)
			}
			if d := firstDiff(rp, r.RPC); d >= 0 {
				disagreements++
				fail("C15: rpc/%s/rpcbinding.go is not what the generator produces from the manifest of the working tree (first difference at byte %d: %q vs %q)", name, d, clipAt(rp, d), clipAt(r.RPC, d))
			}
			h.NonTrivial()
			col.Sample(map[string]any{"contract": name, "script_bytes": len(fn.Script), "checksum": fn.Checksum, "methods": len(fm.ABI.Methods), "events": len(fm.ABI.Events), "binding_bytes": len(r.RPC), "identical": true, "note": headerNote})
		})
	}
	col.Extra("programs", programs)
	col.Extra("disagreements_checked", disagreements)
	col.SetExhaustive(true)
}

func clipAt(b []byte, i int) string {
	j := i + 60
	if j > len(b) {
		j = len(b)
	}
	if i > len(b) {
		i = len(b)
	}
	return string(b[i:j])
}

func manifestDiff(a, b *manifest.Manifest) string {
	if a.Name != b.Name {
		return fmt.Sprintf("name %q vs %q", a.Name, b.Name)
	}
	am, bm := map[string]manifest.Method{}, map[string]manifest.Method{}
	for _, m := range a.ABI.Methods {
		am[fmt.Sprintf("%s/%d", m.Name, len(m.Parameters))] = m
	}
	for _, m := range b.ABI.Methods {
		bm[fmt.Sprintf("%s/%d", m.Name, len(m.Parameters))] = m
	}
	for k, m := range am {
		o, ok := bm[k]
		if !ok {
			return "method " + k + " is not produced by the sources"
		}
		x, _ := json.Marshal(m)
		y, _ := json.Marshal(o)
		if !bytes.Equal(x, y) {
			return fmt.Sprintf("method %s: %s vs %s", k, x, y)
		}
	}
	for k := range bm {
		if _, ok := am[k]; !ok {
			return "method " + k + " of the sources is missing in the shipped manifest"
		}
	}
	x, _ := json.Marshal(a.ABI.Events)
	y, _ := json.Marshal(b.ABI.Events)
	if !bytes.Equal(x, y) {
		return "events differ"
	}
	x, _ = json.Marshal(a.Permissions)
	y, _ = json.Marshal(b.Permissions)
	if !bytes.Equal(x, y) {
		return fmt.Sprintf("permissions differ: %s vs %s", x, y)
	}
	return "other fields differ (standards, groups, trusts, extra or order)"
}

// ---------------------------------------------------------------------------
// bindings: every generated method is called against a recording actor

type recCall struct {
	op      string
	nparams int
	kind    string
}

type recActor struct {
	calls []recCall
}

var errRecording = errors.New("recording actor")

func (r *recActor) Call(c util.Uint160, op string, params ...any) (*result.Invoke, error) {
	r.calls = append(r.calls, recCall{op, len(params), "Call"})
	return nil, errRecording
}
func (r *recActor) CallAndExpandIterator(c util.Uint160, op string, max int, params ...any) (*result.Invoke, error) {
	r.calls = append(r.calls, recCall{op, len(params), "CallAndExpandIterator"})
	return nil, errRecording
}
func (r *recActor) TerminateSession(uuid.UUID) error { return nil }
func (r *recActor) TraverseIterator(uuid.UUID, *result.Iterator, int) ([]stackitem.Item, error) {
	return nil, errRecording
}
func (r *recActor) MakeCall(c util.Uint160, op string, params ...any) (*transaction.Transaction, error) {
	r.calls = append(r.calls, recCall{op, len(params), "MakeCall"})
	return nil, errRecording
}
func (r *recActor) MakeRun(script []byte) (*transaction.Transaction, error) {
	r.recordScript(script, "MakeRun")
	return nil, errRecording
}

// recordScript recognises the "call with assert" scripts the generator emits
// for boolean non-safe methods: ... PUSHn PACK|NEWARRAY0 PUSHflags PUSHDATA
// method PUSHDATA hash SYSCALL System.Contract.Call ASSERT.
func (r *recActor) recordScript(script []byte, kind string) {
	type ins struct {
		op    opcode.Opcode
		param []byte
	}
	var list []ins
	ctx := vm.NewContext(script)
	for ctx.NextIP() < len(script) {
		op, param, err := ctx.Next()
		if err != nil {
			break
		}
		list = append(list, ins{op, param})
	}
	for i, in := range list {
		if in.op != opcode.SYSCALL || i < 4 {
			continue
		}
		method := string(list[i-2].param)
		n := -1
		switch list[i-4].op {
		case opcode.NEWARRAY0:
			n = 0
		case opcode.PACK:
			if i >= 5 {
				o := list[i-5].op
				if o >= opcode.PUSH0 && o <= opcode.PUSH16 {
					n = int(o - opcode.PUSH0)
				} else if o == opcode.PUSHINT8 {
					n = int(list[i-5].param[0])
				}
			}
		}
		if n >= 0 && len(list[i-1].param) == 20 {
			r.calls = append(r.calls, recCall{method, n, kind + "(script)"})
		}
	}
}
func (r *recActor) MakeUnsignedCall(c util.Uint160, op string, attrs []transaction.Attribute, params ...any) (*transaction.Transaction, error) {
	r.calls = append(r.calls, recCall{op, len(params), "MakeUnsignedCall"})
	return nil, errRecording
}
func (r *recActor) MakeUnsignedRun(script []byte, _ []transaction.Attribute) (*transaction.Transaction, error) {
	r.recordScript(script, "MakeUnsignedRun")
	return nil, errRecording
}
func (r *recActor) SendCall(c util.Uint160, op string, params ...any) (util.Uint256, uint32, error) {
	r.calls = append(r.calls, recCall{op, len(params), "SendCall"})
	return util.Uint256{}, 0, errRecording
}
func (r *recActor) SendRun(script []byte) (util.Uint256, uint32, error) {
	r.recordScript(script, "SendRun")
	return util.Uint256{}, 0, errRecording
}

// fill builds a non-nil value of any parameter type the bindings use.
func fill(t reflect.Type, depth int) reflect.Value {
	switch t {
	case reflect.TypeOf((*big.Int)(nil)):
		return reflect.ValueOf(big.NewInt(7))
	case reflect.TypeOf((*keys.PublicKey)(nil)):
		return reflect.ValueOf(chainkit.DetKey("binding-arg").PublicKey())
	case reflect.TypeOf(util.Uint160{}):
		return reflect.ValueOf(util.Uint160{1, 2, 3})
	case reflect.TypeOf(util.Uint256{}):
		return reflect.ValueOf(util.Uint256{4, 5, 6})
	}
	switch t.Kind() {
	case reflect.Ptr:
		v := reflect.New(t.Elem())
		if t.Elem().Kind() == reflect.Struct && depth < 4 {
			for i := 0; i < t.Elem().NumField(); i++ {
				if v.Elem().Field(i).CanSet() {
					v.Elem().Field(i).Set(fill(t.Elem().Field(i).Type, depth+1))
				}
			}
		}
		return v
	case reflect.Struct:
		v := reflect.New(t).Elem()
		for i := 0; i < t.NumField(); i++ {
			if v.Field(i).CanSet() && depth < 4 {
				v.Field(i).Set(fill(t.Field(i).Type, depth+1))
			}
		}
		return v
	case reflect.Slice:
		if t.Elem().Kind() == reflect.Uint8 {
			return reflect.ValueOf([]byte("arg")).Convert(t)
		}
		s := reflect.MakeSlice(t, 1, 1)
		s.Index(0).Set(fill(t.Elem(), depth+1))
		return s
	case reflect.Map:
		m := reflect.MakeMap(t)
		m.SetMapIndex(fill(t.Key(), depth+1), fill(t.Elem(), depth+1))
		return m
	case reflect.String:
		return reflect.ValueOf("s").Convert(t)
	case reflect.Bool:
		return reflect.ValueOf(true)
	case reflect.Int, reflect.Int64, reflect.Int32, reflect.Uint8, reflect.Uint32, reflect.Uint64:
		return reflect.ValueOf(1).Convert(t)
	case reflect.Interface:
		return reflect.ValueOf([]byte("any")).Convert(reflect.TypeOf([]byte{})).Convert(reflect.TypeOf([]byte{}))
	}
	return reflect.Zero(t)
}

func TestC15Bindings(t *testing.T) {
	theT = t
	col := ev.New("C15", "bindings",
		"every exported method of every generated RPC binding type (ContractReader and Contract of all 11 packages, found by reflection) is called with generated arguments against a recording actor; every contract call it issues must name a method that exists in the manifest generated from the working tree with exactly that number of parameters; conversely every manifest method must be reachable through some binding method; one obligation per binding method")
	col.SetLevel("translation_validation")
	defer func() { col.Flush(true) }()
	h160 := util.Uint160{9}
	mk := map[string]func(a *recActor) []any{
		"alphabet":   func(a *recActor) []any { return []any{rpcalphabet.NewReader(a, h160), rpcalphabet.New(a, h160)} },
		"audit":      func(a *recActor) []any { return []any{rpcaudit.NewReader(a, h160), rpcaudit.New(a, h160)} },
		"balance":    func(a *recActor) []any { return []any{rpcbalance.NewReader(a, h160), rpcbalance.New(a, h160)} },
		"container":  func(a *recActor) []any { return []any{rpccontainer.NewReader(a, h160), rpccontainer.New(a, h160)} },
		"neofs":      func(a *recActor) []any { return []any{rpcneofs.NewReader(a, h160), rpcneofs.New(a, h160)} },
		"neofsid":    func(a *recActor) []any { return []any{rpcneofsid.NewReader(a, h160), rpcneofsid.New(a, h160)} },
		"netmap":     func(a *recActor) []any { return []any{rpcnetmap.NewReader(a, h160), rpcnetmap.New(a, h160)} },
		"nns":        func(a *recActor) []any { return []any{rpcnns2.NewReader(a, h160), rpcnns2.New(a, h160)} },
		"processing": func(a *recActor) []any { return []any{rpcprocessing.NewReader(a, h160), rpcprocessing.New(a, h160)} },
		"proxy":      func(a *recActor) []any { return []any{rpcproxy.NewReader(a, h160), rpcproxy.New(a, h160)} },
		"reputation": func(a *recActor) []any { return []any{rpcreputation.NewReader(a, h160), rpcreputation.New(a, h160)} },
	}
	total := 0
	for _, name := range allContracts {
		var fm manifest.Manifest
		if err := json.Unmarshal(fresh(name).Manifest, &fm); err != nil {
			t.Fatal(err)
		}
		abi := map[string]bool{}
		reached := map[string]bool{}
		for _, m := range fm.ABI.Methods {
			abi[fmt.Sprintf("%s/%d", m.Name, len(m.Parameters))] = true
		}
		h := ev.NewHistory()
		h.Op("bindings of %s", name)
		runCase(t, col, h, func() {
			a := &recActor{}
			for _, obj := range mk[name](a) {
				v := reflect.ValueOf(obj)
				for i := 0; i < v.NumMethod(); i++ {
					m := v.Type().Method(i)
					mt := v.Method(i).Type()
					args := make([]reflect.Value, mt.NumIn())
					for j := range args {
						args[j] = fill(mt.In(j), 0)
					}
					before := len(a.calls)
					func() {
						defer func() {
							if r := recover(); r != nil {
								fail("C15: binding %s.%s panicked on generated arguments: %v", name, m.Name, r)
							}
						}()
						if mt.IsVariadic() {
							v.Method(i).CallSlice(args)
						} else {
							v.Method(i).Call(args)
						}
					}()
					total++
					for _, c := range a.calls[before:] {
						key := fmt.Sprintf("%s/%d", c.op, c.nparams)
						if !abi[key] {
							fail("C15: binding %s.%s calls %s with %d parameter(s) (%s): the manifest of the working tree has no such method", name, m.Name, c.op, c.nparams, c.kind)
						}
						reached[key] = true
					}
				}
			}
			for k := range abi {
				if strings.HasPrefix(k, "_") || strings.HasPrefix(k, "onNEP") || strings.HasPrefix(k, "verify/") {
					continue // not callable through RPC wrappers by design
				}
				if !reached[k] {
					fail("C15: manifest method %s of %s is not reachable through the generated binding", k, name)
				}
			}
			h.NonTrivial()
		})
	}
	col.Bulk(total, total)
	col.Extra("binding_methods_called", total)
	col.SetExhaustive(true)
}

// ---------------------------------------------------------------------------
// deployment order and versions

func repoVersion() int64 {
	b, err := os.ReadFile(filepath.Join(chainkit.RepoDir(), "VERSION"))
	if err != nil {
		panic(chainkit.HarnessError{Msg: err.Error()})
	}
	var ma, mi, pa int64
	if _, err := fmt.Sscanf(strings.TrimSpace(string(b)), "v%d.%d.%d", &ma, &mi, &pa); err != nil {
		panic(chainkit.HarnessError{Msg: "VERSION: " + err.Error()})
	}
	return ma*1_000_000 + mi*1_000 + pa
}

func TestC15DeployOrder(t *testing.T) {
	theT = t
	col := ev.New("C15", "order",
		"the set returned by contracts.GetFS is deployed in the returned order on empty chains with committees of 1 and 4 keys, every dependency being resolved through NNS only (no hashes passed), each contract registered in NNS right after its deployment as the deployment procedure does; every deployment must succeed and version() of every contract (incl. GetMain's) must equal the VERSION file; the same for the freshly compiled executables")
	col.SetLevel("translation_validation")
	defer func() { col.Flush(true) }()
	want := repoVersion()
	for _, n := range []int{1, 4} {
		for _, embedded := range []bool{true, false} {
			h := ev.NewHistory()
			h.Op("committee n=%d embedded=%v", n, embedded)
			runCase(t, col, h, func() {
				fsSet, err := contracts.GetFS()
				if err != nil {
					fail("C15: GetFS: %v", err)
				}
				if len(fsSet) != 9 {
					fail("C15: GetFS returned %d contracts, expected 9", len(fsSet))
				}
				c := chainkit.NewChain(theT, n, chainkit.Options{})
				defer c.Close()
				byManifest := map[string]string{}
				for dir, mn := range chainkit.ManifestNames {
					byManifest[mn] = dir
				}
				var nns util.Uint160
				for i, ct := range fsSet {
					dir := byManifest[ct.Manifest.Name]
					if dir == "" {
						fail("C15: GetFS[%d] is an unknown contract %q", i, ct.Manifest.Name)
					}
					var cc *chainkit.Compiled
					if embedded {
						cc = chainkit.Embedded(dir, "")
					} else {
						cc = chainkit.CompileDir(filepath.Join(chainkit.RepoDir(), "contracts", dir), "")
					}
					var data any
					switch dir {
					case "nns":
						data = []any{[]any{[]any{"neofs", "ops@nspcc.io"}}}
					case "netmap":
						data = []any{false, nil, nil, []any{c.Pubs[0].Bytes()}, []any{"ContainerFee", int64(0), "ContainerAliasFee", int64(0)}}
					case "alphabet":
						data = []any{false, nil, nil, "az", int64(0), int64(n)}
					case "container":
						data = []any{false, nil, nil, nil, nil, ""}
					default:
						data = []any{false, nil, nil, nil, nil}
					}
					o, hsh := c.DeployWith(c.Both(), cc, data)
					h.Op("deploy #%d %s -> %s", i, dir, o)
					if !o.Halt {
						fail("C15: deploying GetFS()[%d] = %s in the returned order fails: %s (a dependency is not yet on chain?)", i, dir, o.Fault)
					}
					if i == 0 {
						if dir != "nns" {
							fail("C15: the first contract of GetFS is %s, NNS must come first", dir)
						}
						nns = hsh
						if id := c.BC.GetContractState(hsh).ID; id != 1 {
							fail("C15: NNS got id %d", id)
						}
					} else {
						f := &chainkit.FS{Chain: c, H: map[string]util.Uint160{"nns": nns}}
						f.RegisterNNS(dir, hsh)
					}
					if v, ok := c.Call(nil, hsh, "version").Int(); !ok || v != want {
						fail("C15: version() of %s is %d, VERSION file says %d", dir, v, want)
					}
				}
				mainSet, err := contracts.GetMain()
				if err != nil || len(mainSet) != 2 {
					fail("C15: GetMain: %v (%d)", err, len(mainSet))
				}
				w := newMainWorldOn(c, embedded)
				for _, hsh := range []util.Uint160{w.neofs, w.proc} {
					if v, ok := c.Call(nil, hsh, "version").Int(); !ok || v != want {
						fail("C15: version() of a main chain contract is %d, VERSION file says %d", v, want)
					}
				}
				h.NonTrivial()
			})
		}
	}
	col.SetExhaustive(true)
}

// newMainWorldOn deploys NeoFS+Processing (embedded or fresh) on an existing chain.
func newMainWorldOn(c *chainkit.Chain, embedded bool) *mainWorld {
	return newMainWorldStored(c, embedded, false, [][]byte{c.Pubs[0].Bytes()})
}

// newMainWorldStored: the main-chain contracts with a chosen Notary mode and list of stored Alphabet keys.
func newMainWorldStored(c *chainkit.Chain, embedded, notaryDisabled bool, stored [][]byte) *mainWorld {
	get := func(name string) *chainkit.Compiled {
		if embedded {
			return chainkit.Embedded(name, "")
		}
		return chainkit.CompileDir(filepath.Join(chainkit.RepoDir(), "contracts", name), "")
	}
	w := &mainWorld{c: c}
	procC := get("processing")
	w.proc = procC.HashFor(c.Committee.ScriptHash())
	o, hN := c.DeployWith(c.Both(), get("neofs"), []any{notaryDisabled, w.proc, storedArg(stored), []any{}})
	if !o.Halt {
		fail("C15: deploying the NeoFS contract fails: %s", o.Fault)
	}
	w.neofs = hN
	if o, _ := c.DeployWith(c.Both(), procC, []any{w.neofs}); !o.Halt {
		fail("C15: deploying the Processing contract fails: %s", o.Fault)
	}
	return w
}

var _ = neotest.NewSingleSigner

func storedArg(stored [][]byte) []any {
	a := make([]any, len(stored))
	for i := range stored {
		a[i] = stored[i]
	}
	return a
}
