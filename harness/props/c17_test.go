package props

import (
	"crypto/sha256"
	"fmt"
	"os"
	"sort"
	"testing"

	"github.com/nspcc-dev/neo-go/pkg/core/transaction"
	"github.com/nspcc-dev/neo-go/pkg/crypto/keys"
	"github.com/nspcc-dev/neo-go/pkg/neotest"
	"github.com/nspcc-dev/neo-go/pkg/util"
	"github.com/nspcc-dev/neo-go/pkg/vm/stackitem"
	"pgregory.net/rapid"

	"verif/harness/chainkit"
	"verif/harness/ev"
)

// ---------------------------------------------------------------------------
// ballot model

type ballot struct {
	voters  []string // public keys (raw bytes as string) in voting order
	height  int64    // block of the last counted (new) vote
	lastAny int64    // block of the last vote of any kind (incl. repeated ones)
}

type decision struct {
	kind string // setConfig alphabetUpdate cheque candidateRemove
	id   []byte
	args []any // contract arguments (the id's arguments are a function of the id)
	desc string
	// effect parameters
	cfgKey, cfgVal []byte
	newAlphabet    [][]byte
	payee          util.Uint160
	amount         int64
	candidate      []byte
}

type voteModel struct {
	alphabet   [][]byte
	ballots    map[string]*ballot
	config     map[string][]byte
	candidates map[string]bool
	paid       map[util.Uint160]int64
}

func (m *voteModel) threshold() int { return len(m.alphabet)*2/3 + 1 }

// memberOf returns the first stored key witnessed by the transaction ("" if none).
func (m *voteModel) invoker(witnessed map[string]bool) string {
	for _, k := range m.alphabet {
		if witnessed[string(k)] {
			return string(k)
		}
	}
	return ""
}

// vote applies one counted invocation at block b; returns the resulting count
// and whether the outcome is ambiguous by the statement (a repeated vote kept
// an otherwise stale ballot alive).
func (m *voteModel) vote(id []byte, voter string, b int64) (count int, completed bool, ambiguous bool) {
	k := string(id)
	bl := m.ballots[k]
	if bl != nil && b-bl.height > 20 {
		if b-bl.lastAny <= 20 {
			ambiguous = true
		}
		delete(m.ballots, k)
		bl = nil
	}
	if bl == nil {
		bl = &ballot{height: b}
		m.ballots[k] = bl
	}
	bl.lastAny = b
	for _, v := range bl.voters {
		if v == voter {
			return len(bl.voters), false, ambiguous
		}
	}
	bl.voters = append(bl.voters, voter)
	bl.height = b
	if len(bl.voters) >= m.threshold() {
		delete(m.ballots, k)
		return len(bl.voters), true, ambiguous
	}
	return len(bl.voters), false, ambiguous
}

// ---------------------------------------------------------------------------

type c17World struct {
	*mainWorld
	m        *voteModel
	spares   []*keys.PrivateKey
	allKeys  map[string]*keys.PrivateKey
	stranger []neotest.SingleSigner
	cands    []neotest.SingleSigner
	payees   []util.Uint160
	idNo     int
	multiTx  bool // several transactions may share a block (stateful group)
}

func newC17World(k int, h *ev.History) *c17World {
	w := &c17World{mainWorld: newMainWorld(1, k, true, h, "InnerRingCandidateFee", int64(1), "WithdrawFee", int64(1)), allKeys: map[string]*keys.PrivateKey{}}
	w.m = &voteModel{ballots: map[string]*ballot{}, config: map[string][]byte{}, candidates: map[string]bool{}, paid: map[util.Uint160]int64{}}
	for _, kk := range w.keys {
		w.m.alphabet = append(w.m.alphabet, kk.PublicKey().Bytes())
		w.allKeys[string(kk.PublicKey().Bytes())] = kk
	}
	for i := 0; i < 3; i++ {
		sp := chainkit.DetKey(fmt.Sprintf("main-spare-%d", i))
		w.spares = append(w.spares, sp)
		w.allKeys[string(sp.PublicKey().Bytes())] = sp
	}
	for i := 0; i < 2; i++ {
		w.stranger = append(w.stranger, chainkit.NamedUser(fmt.Sprintf("c17-stranger-%d", i)))
		cd := chainkit.NamedUser(fmt.Sprintf("c17-candidate-%d", i))
		w.cands = append(w.cands, cd)
		w.c.FundGAS(cd.ScriptHash(), 10_0000_0000)
		var p util.Uint160
		copy(p[:], []byte(fmt.Sprintf("c17-payee-%d..........", i)))
		w.payees = append(w.payees, p)
	}
	// funds for cheques
	if o := w.c.Invoke([]neotest.Signer{w.c.Validators}, w.gas, "transfer", w.c.Validators.ScriptHash(), w.neofs, int64(5000_0000_0000), nil); !o.Halt {
		panic(chainkit.HarnessError{Msg: "c17: deposit failed: " + o.Fault})
	}
	return w
}

// newDecision creates a fresh decision of the given kind.
func (w *c17World) newDecision(kind string) *decision {
	w.idNo++
	n := w.idNo
	d := &decision{kind: kind}
	// ids of different lengths where one competing id is a prefix of the other ("setConfig#1", "setConfig#1x"):
	// ids are opaque byte strings and must be matched exactly
	d.id = []byte(fmt.Sprintf("%s#%d", kind, (n+1)/2))
	if n%2 == 0 {
		d.id = append(d.id, 'x')
	}
	switch kind {
	case "setConfig":
		d.cfgKey, d.cfgVal = []byte(fmt.Sprintf("key%d", n%2)), []byte(fmt.Sprintf("val%d", n))
		d.args = []any{d.id, d.cfgKey, d.cfgVal}
		d.desc = fmt.Sprintf("setConfig#%d(%s=%s)", n, d.cfgKey, d.cfgVal)
	case "alphabetUpdate":
		// replacement of one position by a spare key not in the list, removal of one position, or
		// addition of a spare key (the proposed list may differ in size from the stored one: the
		// threshold is that of the stored list)
		nl := append([][]byte{}, w.m.alphabet...)
		pos := n % len(nl)
		var spare []byte
		for _, sp := range w.spares {
			in := false
			for _, k := range nl {
				if string(k) == string(sp.PublicKey().Bytes()) {
					in = true
				}
			}
			if !in {
				spare = sp.PublicKey().Bytes()
				break
			}
		}
		shape := "replace position"
		switch {
		case (n/2)%3 == 1 && len(nl) > 1 && (len(nl)-1)*2/3 == len(nl)*2/3:
			// (a removal that lowers the threshold under other pending ballots would make their next
			// vote set-valued - the statement fixes n; such removals are enumerated in the group
			// alphabet-resize, where no other ballot is pending)
			shape = "drop position"
			nl = append(nl[:pos:pos], nl[pos+1:]...)
		case (n/2)%3 == 2 && spare != nil && len(nl) < 7:
			shape = "append a key, was"
			nl = append(nl, spare)
			pos = len(nl) - 1
		case spare != nil:
			nl[pos] = spare
		}
		if len(nl) != len(w.m.alphabet) {
			w.h.Mark("alphabetUpdate-proposes-another-size")
		}
		d.newAlphabet = nl
		arr := make([]any, len(nl))
		for i := range nl {
			arr[i] = nl[i]
		}
		d.args = []any{d.id, arr}
		d.desc = fmt.Sprintf("alphabetUpdate#%d(%s %d: %d -> %d keys)", n, shape, pos, len(w.m.alphabet), len(nl))
	case "cheque":
		d.payee, d.amount = w.payees[n%2], int64(1000+n)
		d.args = []any{d.id, d.payee, d.amount, []byte(fmt.Sprintf("lock-%d", n))}
		d.desc = fmt.Sprintf("cheque#%d(%d to payee%d)", n, d.amount, n%2)
	}
	return d
}

func (w *c17World) candidateDecision(i int) *decision {
	key := w.cands[i].Account().PublicKey().Bytes()
	idh := sha256.Sum256(append(append([]byte{}, key...), []byte("delete")...))
	return &decision{kind: "candidateRemove", id: idh[:], candidate: key, args: []any{key}, desc: fmt.Sprintf("innerRingCandidateRemove(candidate%d)", i)}
}

func method(kind string) string {
	if kind == "candidateRemove" {
		return "innerRingCandidateRemove"
	}
	return kind
}

// voteTx is one prepared invocation.
type voteTx struct {
	d        *decision
	signers  []neotest.Signer
	witnessd map[string]bool // public keys witnessing
	who      string
	tx       *transaction.Transaction
}

func (w *c17World) prepare(d *decision, actors []neotest.SingleSigner, who string) voteTx {
	v := voteTx{d: d, witnessd: map[string]bool{}, who: who}
	for _, a := range actors {
		v.signers = append(v.signers, a)
		v.witnessd[string(a.Account().PublicKey().Bytes())] = true
	}
	v.tx = w.c.Prepare(v.signers, w.neofs, method(d.kind), d.args...)
	return v
}

// rawBallots reads the contract's ballot list.
func (w *c17World) rawBallots() map[string]*ballot {
	res := map[string]*ballot{}
	raw, ok := w.c.Storage(w.neofs)["ballots"]
	if !ok {
		return res
	}
	it, err := stackitem.Deserialize(raw)
	if err != nil {
		fail("C17: ballots do not deserialize: %v", err)
	}
	for _, b := range chainkit.ItemArr(it) {
		f := chainkit.ItemArr(b)
		bl := &ballot{height: chainkit.ItemInt(f[2]) + 1}
		for _, v := range chainkit.ItemArr(f[1]) {
			bl.voters = append(bl.voters, string(chainkit.ItemBytes(v)))
		}
		bl.lastAny = bl.height
		res[string(chainkit.ItemBytes(f[0]))] = bl
	}
	return res
}

// apply checks one executed invocation against the model.
func (w *c17World) apply(v voteTx, o *chainkit.Outcome) {
	m := w.m
	b := int64(o.Block)
	d := v.d
	what := fmt.Sprintf("%s by %s in block %d", d.desc, v.who, b)
	w.h.Op("%s -> %s", what, o)
	selfRemoval := d.kind == "candidateRemove" && v.witnessd[string(d.candidate)]
	voter := m.invoker(v.witnessd)
	if !selfRemoval && voter == "" {
		if o.Halt {
			fail("C17: %s: the invoker is not an Alphabet key but the call was accepted", what)
		}
		w.h.Mark("stranger-rejected")
		return
	}
	if !o.Halt {
		fail("C17: %s: invocation by an authorised key failed: %s", what, o.Fault)
	}
	completed := selfRemoval
	if !selfRemoval {
		var ambiguous bool
		var count int
		count, completed, ambiguous = m.vote(d.id, voter, b)
		_ = count
		if ambiguous && w.multiTx {
			panic(chainkit.HarnessError{Msg: "C17 harness: a set-valued vote was generated in a multi-transaction block"})
		}
		if ambiguous {
			// a repeated vote happened inside the window but the last counted one is
			// older than 20 blocks: the statement does not say whether the window was
			// refreshed. Resynchronise the ballot from what the contract stores.
			w.h.Mark("ambiguous:repeated-vote-refresh")
			raw := w.rawBallots()
			if rb, ok := raw[string(d.id)]; ok {
				m.ballots[string(d.id)] = rb
				completed = false
			} else {
				delete(m.ballots, string(d.id))
				completed = len(chainkit.EventsNamed(o.Events, eventOf(d.kind))) > 0 || d.kind == "candidateRemove"
			}
		}
	}
	// effect
	wantEvents := 0
	if completed {
		w.h.Mark("completed:" + d.kind)
		switch d.kind {
		case "setConfig":
			m.config[string(d.cfgKey)] = d.cfgVal
			wantEvents = 1
		case "alphabetUpdate":
			m.alphabet = d.newAlphabet
			wantEvents = 1
		case "cheque":
			m.paid[d.payee] += d.amount
			wantEvents = 1
		case "candidateRemove":
			delete(m.candidates, string(d.candidate))
		}
	} else {
		w.h.Mark("counted-below-threshold")
	}
	if name := eventOf(d.kind); name != "" {
		evs := chainkit.EventsNamed(o.Events, name)
		if len(evs) != wantEvents {
			fail("C17: %s: %d %s notification(s), expected %d (voters so far: %d, threshold %d)", what, len(evs), name, wantEvents, w.countVoters(d.id), m.threshold())
		}
		if wantEvents == 1 {
			if string(chainkit.ItemBytes(chainkit.ItemArr(evs[0].Item)[0])) != string(d.id) {
				fail("C17: %s notification carries another id", name)
			}
		}
	}
}

func (w *c17World) countVoters(id []byte) int {
	if b := w.m.ballots[string(id)]; b != nil {
		return len(b.voters)
	}
	return 0
}

func eventOf(kind string) string {
	switch kind {
	case "setConfig":
		return "SetConfig"
	case "alphabetUpdate":
		return "AlphabetUpdate"
	case "cheque":
		return "Cheque"
	}
	return ""
}

// observe compares the read API and balances with the model.
func (w *c17World) observe(what string) {
	m := w.m
	for _, k := range []string{"key0", "key1"} {
		r := w.c.Call(nil, w.neofs, "config", []byte(k))
		b, _ := r.Bytes()
		if string(b) != string(m.config[k]) {
			fail("C17: config(%s) = %q, expected %q (%s)", k, b, m.config[k], what)
		}
	}
	al, ok := w.c.Call(nil, w.neofs, "alphabetList").Array()
	if !ok || len(al) != len(m.alphabet) {
		fail("C17: alphabetList has %d keys, expected %d (%s)", len(al), len(m.alphabet), what)
	}
	for i := range al {
		if string(chainkit.ItemBytes(chainkit.ItemArr(al[i])[0])) != string(m.alphabet[i]) {
			fail("C17: alphabetList[%d] differs from the model (%s)", i, what)
		}
	}
	cl, _ := w.c.Call(nil, w.neofs, "innerRingCandidates").Array()
	var got, want []string
	for _, c := range cl {
		got = append(got, hex(chainkit.ItemBytes(chainkit.ItemArr(c)[0])))
	}
	for k := range m.candidates {
		want = append(want, hex([]byte(k)))
	}
	sort.Strings(got)
	sort.Strings(want)
	if !sameStrings(got, want) {
		fail("C17: innerRingCandidates = %v, expected %v (%s)", got, want, what)
	}
	for _, p := range w.payees {
		if g := w.c.GAS(p); g != m.paid[p] {
			fail("C17: payee %s holds %d GAS units, cheques paid %d (%s)", p.StringLE()[:6], g, m.paid[p], what)
		}
	}
}

// memberSigner returns a signer for a stored/spare key.
func (w *c17World) signerOf(pub []byte) neotest.SingleSigner {
	return neotest.NewSingleSigner(walletOf(w.allKeys[string(pub)]))
}

func TestC17Stateful(t *testing.T) {
	theT = t
	col := ev.New("C17", "stateful",
		"rapid state machine on the main-chain NeoFS contract deployed without Notary with n=1..7 stored Alphabet keys: decisions {setConfig, alphabetUpdate (replacement or addition of one key, removal where the threshold stays: the proposed list may have another size than the stored one), cheque, innerRingCandidateRemove} with two competing ids per kind (of different lengths, one a prefix of the other) whose arguments are a function of the id; actors: current members, replaced ex-members, strangers, the candidate itself, sometimes two signers; blocks of 1..3 invocations separated by gaps {1,19,20,21,25} (several votes per block = gap 0); ballot model: distinct voters per id, expiry when the gap to the last counted vote exceeds 20 blocks, effect exactly in the invocation reaching floor(2n/3)+1; config, alphabetList, innerRingCandidates, payee GAS and the Cheque/AlphabetUpdate/SetConfig notifications compared after every block; non-trivial = a decision completed with n>=3 after a gap >= 19 or with a competing id / stranger / repeated vote in the history",
		"the arguments of a decision are a function of its id (the Inner Ring derives ids from events)", "a repeated vote that falls inside the window while the last counted vote is older than 20 blocks is set-valued (resynchronised from the stored ballot)", "the contract holds enough GAS for every cheque")
	runRapid(t, col, func(rt *rapid.T, h *ev.History) {
		k := rapid.SampledFrom([]int{1, 2, 3, 4, 4, 5, 7}).Draw(rt, "n")
		w := newC17World(k, h)
		defer w.close()
		w.c.FixedSysFee = 30_0000_0000
		w.multiTx = true
		if rapid.IntRange(0, 3).Draw(rt, "oldChain") == 0 {
			// block heights (stored with every ballot) beyond one byte
			w.c.Skip(rapid.SampledFrom([]int{120, 250, 300}).Draw(rt, "startHeight"))
			h.Mark("block-heights-beyond-one-byte")
		}
		h.Op("n=%d threshold=%d", k, w.m.threshold())
		kinds := []string{"setConfig", "alphabetUpdate", "cheque"}
		active := map[string][]*decision{}
		for _, kd := range kinds {
			active[kd] = []*decision{w.newDecision(kd), w.newDecision(kd)}
		}
		exMembers := [][]byte{}
		steps := rapid.IntRange(2, 28).Draw(rt, "blocks")
		for s := 0; s < steps; s++ {
			gap := rapid.SampledFrom([]int{1, 1, 1, 1, 19, 20, 21, 25}).Draw(rt, "gap")
			w.c.Skip(gap - 1)
			if gap >= 19 {
				h.Mark(fmt.Sprintf("gap-%d", gap))
			}
			ntx := rapid.SampledFrom([]int{1, 1, 2, 3}).Draw(rt, "txInBlock")
			var txs []voteTx
			auInBlock := false
			for j := 0; j < ntx; j++ {
				kind := rapid.SampledFrom([]string{"setConfig", "setConfig", "alphabetUpdate", "cheque", "cheque", "candidateRemove", "candidateAdd"}).Draw(rt, "kind")
				if kind == "candidateAdd" {
					// not a vote: a candidate registers itself (commits immediately in its own block)
					if j == 0 {
						ci := rapid.IntRange(0, 1).Draw(rt, "candidate")
						key := w.cands[ci].Account().PublicKey().Bytes()
						o := w.c.Invoke([]neotest.Signer{w.cands[ci]}, w.neofs, "innerRingCandidateAdd", key)
						if w.m.candidates[string(key)] == o.Halt {
							fail("C17 harness: candidateAdd present=%v: %s", w.m.candidates[string(key)], o)
						}
						w.m.candidates[string(key)] = true
						h.Op("candidate%d registers itself -> %s", ci, o)
					}
					continue
				}
				var d *decision
				if kind == "candidateRemove" {
					d = w.candidateDecision(rapid.IntRange(0, 1).Draw(rt, "candidate"))
				} else {
					which := rapid.IntRange(0, 1).Draw(rt, "whichId")
					d = active[kind][which]
					if kind == "alphabetUpdate" {
						// A proposal that would lower the threshold under other pending ballots makes their next
						// vote set-valued (the statement fixes n). Proposals are made relative to the list at
						// their creation, so one that was overtaken by a growth of the list is withdrawn here;
						// and only one alphabetUpdate vote goes into a block, so that the list this check sees
						// is the list the vote will see.
						if auInBlock {
							continue
						}
						if len(d.newAlphabet)*2/3 < len(w.m.alphabet)*2/3 {
							delete(w.m.ballots, string(d.id))
							d = w.newDecision(kind)
							active[kind][which] = d
							col.Count("excluded:overtaken-alphabet-proposal-withdrawn", 1)
						}
						auInBlock = true
					}
				}
				// actor
				var actors []neotest.SingleSigner
				who := ""
				switch rapid.SampledFrom([]string{"member", "member", "member", "member", "member", "stranger", "ex-member", "two-members", "member+stranger", "candidate"}).Draw(rt, "actor") {
				case "stranger":
					actors = []neotest.SingleSigner{w.stranger[rapid.IntRange(0, 1).Draw(rt, "stranger")]}
					who = "a stranger"
					h.Mark("stranger-attempt")
				case "ex-member":
					if len(exMembers) > 0 {
						actors = []neotest.SingleSigner{w.signerOf(exMembers[len(exMembers)-1])}
						who = "a replaced ex-member"
						h.Mark("ex-member-attempt")
					}
				case "two-members":
					if len(w.m.alphabet) >= 2 {
						a, b := rapid.IntRange(0, len(w.m.alphabet)-1).Draw(rt, "m1"), rapid.IntRange(0, len(w.m.alphabet)-1).Draw(rt, "m2")
						actors = []neotest.SingleSigner{w.signerOf(w.m.alphabet[a]), w.signerOf(w.m.alphabet[b])}
						who = fmt.Sprintf("members %d and %d together", a, b)
					}
				case "member+stranger":
					a := rapid.IntRange(0, len(w.m.alphabet)-1).Draw(rt, "m1")
					actors = []neotest.SingleSigner{w.stranger[0], w.signerOf(w.m.alphabet[a])}
					who = fmt.Sprintf("member %d together with a stranger", a)
				case "candidate":
					if kind == "candidateRemove" {
						for i, cd := range w.cands {
							if string(cd.Account().PublicKey().Bytes()) == string(d.candidate) {
								actors = []neotest.SingleSigner{w.cands[i]}
								who = "the candidate itself"
							}
						}
					}
				}
				if actors == nil {
					a := rapid.IntRange(0, len(w.m.alphabet)-1).Draw(rt, "member")
					actors = []neotest.SingleSigner{w.signerOf(w.m.alphabet[a])}
					who = fmt.Sprintf("member %d", a)
				}
				if len(actors) == 2 && actors[0].ScriptHash() == actors[1].ScriptHash() {
					actors = actors[:1]
				}
				// A vote that arrives more than 20 blocks after the last counted one but within
				// 20 blocks of a repeated vote is set-valued by the statement (was the window
				// refreshed?). With several transactions per block the stored ballot cannot be
				// read back per transaction, so such votes are not generated here (they are in
				// the exhaustive group, one transaction per block) and counted.
				if bl := w.m.ballots[string(d.id)]; bl != nil {
					nb := int64(w.c.Height()) + 1
					if nb-bl.height > 20 && nb-bl.lastAny <= 20 {
						col.Count("excluded:set-valued-repeated-vote-refresh", 1)
						continue
					}
				}
				txs = append(txs, w.prepare(d, actors, who))
			}
			if len(txs) == 0 {
				continue
			}
			raw := make([]*transaction.Transaction, len(txs))
			for i := range txs {
				raw[i] = txs[i].tx
			}
			outs := w.c.InvokeBlock(0, raw...)
			for i := range txs {
				before := len(w.m.alphabet)
				prevAlpha := append([][]byte{}, w.m.alphabet...)
				w.apply(txs[i], outs[i])
				_ = before
				// track replaced keys
				for _, pk := range prevAlpha {
					still := false
					for _, nk := range w.m.alphabet {
						if string(nk) == string(pk) {
							still = true
						}
					}
					if !still {
						exMembers = append(exMembers, pk)
					}
				}
				// retire completed decisions: the Inner Ring never votes for a finished event again
				d := txs[i].d
				if d.kind != "candidateRemove" && w.m.ballots[string(d.id)] == nil && h.Has("completed:"+d.kind) {
					for j, ad := range active[d.kind] {
						if string(ad.id) == string(d.id) && w.completedNow(outs[i], d) {
							active[d.kind][j] = w.newDecision(d.kind)
						}
					}
				}
			}
			w.observe(fmt.Sprintf("block %d", w.c.Height()))
		}
		completed := h.Has("completed:setConfig") || h.Has("completed:cheque") || h.Has("completed:alphabetUpdate") || h.Has("completed:candidateRemove")
		if completed && k >= 3 && (h.Has("gap-19") || h.Has("gap-20") || h.Has("gap-21") || h.Has("gap-25") || h.Has("stranger-attempt") || h.Has("ex-member-attempt")) {
			h.NonTrivial()
		}
	})
}

func (w *c17World) completedNow(o *chainkit.Outcome, d *decision) bool {
	return len(chainkit.EventsNamed(o.Events, eventOf(d.kind))) > 0
}

// TestC17Interplay: a decision completes while other ballots are open; nothing of theirs may be touched,
// and the completed decision must not stay half open.
func TestC17Interplay(t *testing.T) {
	theT = t
	col := ev.New("C17", "interplay",
		"complete enumeration for n=2..5 stored keys x completing kind {setConfig, cheque, alphabetUpdate (replacement), innerRingCandidateRemove, cheque whose payee is a contract that calls cheque again with the same arguments from its payment callback} x bystander kind {setConfig, cheque, innerRingCandidateRemove of the other candidate} x bystander opened {before, after} the first vote of the completing decision: the bystander gets one vote, the completing decision is voted to its threshold by distinct keys, then one more vote for the completed id is sent (and, for removals, the candidate registers again first: one vote must not remove it), then the bystander is voted to its threshold by the remaining keys; every invocation is judged by the ballot model, the read API is compared after every block; non-trivial = every case")
	defer func() { col.Flush(true) }()
	nshards, shard := envInt("VERIF_NSHARDS", 1), envInt("VERIF_SHARD_INDEX", 0)
	idx := 0
	for n := 2; n <= 5; n++ {
		for _, kind := range []string{"setConfig", "cheque", "alphabetUpdate", "candidateRemove", "cheque-to-a-re-entering-contract"} {
			for _, by := range []string{"setConfig", "cheque", "candidateRemove"} {
				for _, before := range []bool{true, false} {
					idx++
					if idx%nshards != shard {
						continue
					}
					h := ev.NewHistory()
					h.Op("n=%d completing=%s bystander=%s bystander opened before=%v", n, kind, by, before)
					if !runCase(t, col, h, func() {
						w := newC17World(n, h)
						defer w.close()
						thr := w.m.threshold()
						register := func(ci int) {
							key := w.cands[ci].Account().PublicKey().Bytes()
							if w.m.candidates[string(key)] {
								return
							}
							if o := w.c.Invoke([]neotest.Signer{w.cands[ci]}, w.neofs, "innerRingCandidateAdd", key); !o.Halt {
								panic(chainkit.HarnessError{Msg: "c17: candidateAdd: " + o.Fault})
							}
							w.m.candidates[string(key)] = true
							h.Op("candidate%d registers", ci)
						}
						mk := func(k string, ci int) *decision {
							if k == "candidateRemove" {
								register(ci)
								return w.candidateDecision(ci)
							}
							return w.newDecision(k)
						}
						reenter := kind == "cheque-to-a-re-entering-contract"
						kind := kind
						if reenter {
							kind = "cheque"
						}
						d, b := mk(kind, 0), mk(by, 1)
						if reenter {
							// the payee is a contract that, when paid, calls cheque again with the same arguments (once):
							// the completing member's witness is still there, so that call is one more invocation by that key
							probe := w.c.Deploy(chainkit.Probe("reenter", ""), nil)
							d.payee = probe
							d.args = []any{d.id, probe, d.amount, []byte("lock-reenter")}
							d.desc += " to a contract that re-enters cheque"
							w.payees = append(w.payees, probe)
							if o := w.c.Invoke(nil, probe, "arm", w.neofs, "cheque", d.args, 1); !o.Halt {
								panic(chainkit.HarnessError{Msg: "c17: arming the probe: " + o.Fault})
							}
						}
						members := append([][]byte{}, w.m.alphabet...)
						vote := func(dd *decision, mi int) {
							v := w.prepare(dd, []neotest.SingleSigner{w.signerOf(members[mi])}, fmt.Sprintf("member %d", mi))
							outs := w.c.InvokeBlock(0, v.tx)
							w.apply(v, outs[0])
							w.observe("interplay")
						}
						if before {
							vote(b, n-1)
						}
						vote(d, 0)
						if !before {
							vote(b, n-1)
						}
						for i := 1; i < thr; i++ {
							vote(d, i)
							if reenter && i == thr-1 {
								// the nested invocation: a repeated vote of the completing key on a ballot that was
								// closed before the payment - it opens a fresh one with that single vote
								if n, ok := w.c.Call(nil, d.payee, "done").Int(); !ok || n != 1 {
									fail("C17: the re-entering payee was called %d times by the completing vote, expected once", n)
								}
								w.m.vote(d.id, string(members[i]), int64(w.c.Height()))
								h.Op("(the payee re-entered cheque once under member %d's witness)", i)
								w.observe("after the re-entry")
							}
						}
						if !h.Has("completed:" + kind) {
							fail("C17: %s did not complete with %d distinct votes of %d keys", d.desc, thr, n)
						}
						if kind == "alphabetUpdate" {
							// the voters of the bystander must be keys of the new list
							members = append([][]byte{}, w.m.alphabet...)
						}
						if kind == "candidateRemove" {
							register(0)
						}
						// one more vote for the finished id: a fresh ballot with a single vote
						if kind != "alphabetUpdate" {
							vote(d, 0)
						}
						// the bystander collects the rest of its votes
						if kind != "alphabetUpdate" {
							for i := n - 2; i >= 0 && w.m.ballots[string(b.id)] != nil; i-- {
								vote(b, i)
							}
							if w.m.ballots[string(b.id)] != nil {
								fail("C17: harness: the bystander did not complete in the model")
							}
						}
						h.NonTrivial()
					}) {
						return
					}
				}
			}
		}
	}
	col.SetExhaustive(true)
}

// TestC17WitnessScopes: a stored key counts only when its witness covers the call of the NeoFS contract.
func TestC17WitnessScopes(t *testing.T) {
	theT = t
	col := ev.New("C17", "witness-scopes",
		"complete enumeration for n=2..4 stored keys x decision kind {setConfig, cheque}: member 0 votes; then member 1 is merely the sender of the transaction (witness scope None) of a stranger's invocation (rejected); member 1 with scope CalledByEntry calls a third-party contract that calls the NeoFS contract (rejected); member 1 pays (scope None) for the vote of the last member (counted for that member only); member 1 itself votes with scope CalledByEntry directly (counted); remaining members vote until the model's threshold; every invocation is judged by the ballot model with the set of keys whose witness really covers the call; non-trivial = every case")
	defer func() { col.Flush(true) }()
	nshards, shard := envInt("VERIF_NSHARDS", 1), envInt("VERIF_SHARD_INDEX", 0)
	idx := 0
	for n := 2; n <= 4; n++ {
		for _, kind := range []string{"setConfig", "cheque"} {
			idx++
			if idx%nshards != shard {
				continue
			}
			h := ev.NewHistory()
			h.Op("n=%d kind=%s", n, kind)
			if !runCase(t, col, h, func() {
				w := newC17World(n, h)
				defer w.close()
				actor := w.c.Deploy(chainkit.Probe("actor", ""), nil)
				d := w.newDecision(kind)
				mem := func(i int) neotest.SingleSigner { return w.signerOf(w.m.alphabet[i]) }
				for i := 0; i < n; i++ {
					w.c.FundGAS(mem(i).ScriptHash(), 200*gasUnit)
				}
				w.c.FundGAS(w.stranger[0].ScriptHash(), 200*gasUnit)
				direct := chainkit.Script(w.neofs, method(d.kind), d.args...)
				via := chainkit.Script(actor, "call", w.neofs, method(d.kind), d.args)
				run := func(who string, script []byte, signers []chainkit.ScopedSigner, covering ...int) {
					v := voteTx{d: d, witnessd: map[string]bool{}, who: who}
					for _, i := range covering {
						v.witnessd[string(w.m.alphabet[i])] = true
					}
					v.tx = w.c.PrepareScoped(script, signers)
					outs := w.c.InvokeBlock(0, v.tx)
					w.apply(v, outs[0])
					w.observe("witness scopes")
				}
				G, N, E := transaction.Global, transaction.None, transaction.CalledByEntry
				run("member 0", direct, []chainkit.ScopedSigner{{S: mem(0), Scope: G}}, 0)
				run("a stranger, member 1 being only the sender of the transaction (scope None)", direct, []chainkit.ScopedSigner{{S: mem(1), Scope: N}, {S: w.stranger[0], Scope: G}})
				run("member 1 (scope CalledByEntry) through a third-party contract", via, []chainkit.ScopedSigner{{S: mem(1), Scope: E}})
				if n >= 3 {
					run(fmt.Sprintf("member %d, member 1 paying the fees (scope None)", n-1), direct, []chainkit.ScopedSigner{{S: mem(1), Scope: N}, {S: mem(n - 1), Scope: G}}, n-1)
				}
				run("member 1 (scope CalledByEntry, called directly from the entry script)", direct, []chainkit.ScopedSigner{{S: mem(1), Scope: E}}, 1)
				for i := 2; i < n-1 && !h.Has("completed:"+kind); i++ {
					run(fmt.Sprintf("member %d", i), direct, []chainkit.ScopedSigner{{S: mem(i), Scope: G}}, i)
				}
				if !h.Has("completed:" + kind) {
					fail("C17: %s was not completed by all %d stored keys", d.desc, n)
				}
				h.NonTrivial()
			}) {
				return
			}
		}
	}
	col.SetExhaustive(true)
}

// TestC17AlphabetResize: the threshold of an alphabetUpdate is that of the stored list, whatever the size of the proposed one.
func TestC17AlphabetResize(t *testing.T) {
	theT = t
	col := ev.New("C17", "alphabet-resize",
		"complete enumeration of stored sizes n=1..7 x proposed sizes m=1..7: one alphabetUpdate decision (no other ballot pending), the stored keys vote one per block: the list must be replaced exactly by vote floor(2n/3)+1 (n = stored size) and by no other; afterwards a setConfig decision is voted by the keys of the new list and must complete exactly at floor(2m/3)+1; non-trivial = m != n")
	defer func() { col.Flush(true) }()
	nshards, shard := envInt("VERIF_NSHARDS", 1), envInt("VERIF_SHARD_INDEX", 0)
	idx := 0
	for n := 1; n <= 7; n++ {
		for m := 1; m <= 7; m++ {
			idx++
			if idx%nshards != shard {
				continue
			}
			h := ev.NewHistory()
			h.Op("stored %d keys, proposed %d keys", n, m)
			if !runCase(t, col, h, func() {
				w := newC17World(n, h)
				defer w.close()
				var nl [][]byte
				for i := 0; i < m && i < n; i++ {
					nl = append(nl, w.m.alphabet[i])
				}
				for i := n; i < m; i++ {
					k := chainkit.DetKey(fmt.Sprintf("main-added-%d", i))
					w.allKeys[string(k.PublicKey().Bytes())] = k
					nl = append(nl, k.PublicKey().Bytes())
				}
				idh := sha256.Sum256([]byte(fmt.Sprintf("resize-%d-%d", n, m)))
				arr := make([]any, len(nl))
				for i := range nl {
					arr[i] = nl[i]
				}
				d := &decision{kind: "alphabetUpdate", id: idh[:], newAlphabet: nl, args: []any{idh[:], arr}, desc: fmt.Sprintf("alphabetUpdate(%d -> %d keys)", n, m)}
				old := append([][]byte{}, w.m.alphabet...)
				for i := 0; i < w.m.threshold() && i < len(old); i++ {
					// (the model replaces the list when the threshold of the stored list is reached; the voters are the old keys)
					v := w.prepare(d, []neotest.SingleSigner{w.signerOf(old[i])}, fmt.Sprintf("member %d", i))
					outs := w.c.InvokeBlock(0, v.tx)
					thrBefore := len(old)*2/3 + 1
					w.apply(v, outs[0])
					w.observe("alphabetUpdate vote")
					if (i+1 == thrBefore) != h.Has("completed:alphabetUpdate") {
						fail("C17: alphabetUpdate(%d -> %d keys): after vote %d of the stored keys completed=%v, threshold of the stored list is %d", n, m, i+1, h.Has("completed:alphabetUpdate"), thrBefore)
					}
					if h.Has("completed:alphabetUpdate") {
						break
					}
				}
				if !h.Has("completed:alphabetUpdate") {
					fail("C17: alphabetUpdate(%d -> %d keys) never completed", n, m)
				}
				// the new list decides with its own threshold
				sc := w.newDecision("setConfig")
				for i := 0; i < len(nl); i++ {
					v := w.prepare(sc, []neotest.SingleSigner{w.signerOf(nl[i])}, fmt.Sprintf("new member %d", i))
					outs := w.c.InvokeBlock(0, v.tx)
					w.apply(v, outs[0])
					w.observe("setConfig vote of the new list")
					if (i+1 >= m*2/3+1) != h.Has("completed:setConfig") {
						fail("C17: after alphabetUpdate(%d -> %d keys) setConfig completed=%v at vote %d, threshold of the new list is %d", n, m, h.Has("completed:setConfig"), i+1, m*2/3+1)
					}
					if h.Has("completed:setConfig") {
						break
					}
				}
				if m != n {
					h.NonTrivial()
				}
			}) {
				return
			}
		}
	}
	col.SetExhaustive(true)
}

// TestC17Exhaustive enumerates all vote sequences of bounded length.
func TestC17Exhaustive(t *testing.T) {
	theT = t
	maxLen := envInt("VERIF_C17_MAXLEN", 4)
	col := ev.New("C17", "exhaustive",
		fmt.Sprintf("complete enumeration for n=1..4 stored keys of all sequences of length 1..%d over (actor in members+one stranger) x (two competing setConfig ids, one a prefix of the other), one invocation per block, plus for n=2..4 all gap vectors from {1,20,21}^(threshold-1) between the threshold-many distinct votes with and without an interleaved repeated vote; the ballot model must predict every outcome; non-trivial = sequence containing a completion", maxLen),
		"the arguments of a decision are a function of its id")
	defer func() { col.Flush(true) }()
	nshards, shard := envInt("VERIF_NSHARDS", 1), envInt("VERIF_SHARD_INDEX", 0)
	idx := 0
	run := func(n int, seq [][2]int, gaps []int) bool {
		idx++
		if idx%nshards != shard {
			return true
		}
		h := ev.NewHistory()
		h.Op("n=%d sequence=%v gaps=%v", n, seq, gaps)
		return runCase(t, col, h, func() {
			w := newC17World(n, h)
			defer w.close()
			ds := []*decision{w.newDecision("setConfig"), w.newDecision("setConfig")}
			for i, st := range seq {
				g := 1
				if gaps != nil {
					g = gaps[i]
				}
				w.c.Skip(g - 1)
				var actors []neotest.SingleSigner
				who := "a stranger"
				if st[0] < n {
					actors = []neotest.SingleSigner{w.signerOf(w.m.alphabet[st[0]])}
					who = fmt.Sprintf("member %d", st[0])
				} else {
					actors = []neotest.SingleSigner{w.stranger[0]}
				}
				v := w.prepare(ds[st[1]], actors, who)
				outs := w.c.InvokeBlock(0, v.tx)
				w.apply(v, outs[0])
				w.observe("step")
			}
			if h.Has("completed:setConfig") {
				h.NonTrivial()
			}
		})
	}
	for n := 1; n <= 4; n++ {
		var rec func(seq [][2]int) bool
		rec = func(seq [][2]int) bool {
			if len(seq) > 0 {
				if !run(n, seq, nil) && os.Getenv("VERIF_KEEP_GOING") == "" {
					return false
				}
			}
			if len(seq) == maxLen {
				return true
			}
			for a := 0; a <= n; a++ {
				for id := 0; id < 2; id++ {
					if !rec(append(append([][2]int{}, seq...), [2]int{a, id})) {
						return false
					}
				}
			}
			return true
		}
		if !rec(nil) {
			return
		}
	}
	// gap vectors
	for n := 2; n <= 4; n++ {
		th := n*2/3 + 1
		gapSet := []int{1, 20, 21}
		var vec func(g []int) bool
		vec = func(g []int) bool {
			if len(g) == th {
				seq := make([][2]int, th)
				for i := range seq {
					seq[i] = [2]int{i, 0}
				}
				if !run(n, seq, g) {
					return false
				}
				// with a repeated vote of member 0 before the last distinct vote
				seq2 := append(append([][2]int{}, seq[:th-1]...), [2]int{0, 0}, seq[th-1])
				g2 := append(append([]int{}, g[:th-1]...), 10, g[th-1])
				return run(n, seq2, g2)
			}
			for _, x := range gapSet {
				if !vec(append(append([]int{}, g...), x)) {
					return false
				}
			}
			return true
		}
		if !vec([]int{1}) {
			return
		}
	}
	col.SetExhaustive(true)
}

// TestC17UnfundedCheque: the decision takes effect "exactly once, in the invocation that makes the count reach the
// threshold". If the contract cannot pay at that moment, that invocation cannot have its effect - so it must not
// count either: it fails as a whole, the ballot keeps the votes it had, and the same vote sent again once the funds
// are there pays exactly once. What may not happen is a decision that completes (ballot consumed) without payment.
func TestC17UnfundedCheque(t *testing.T) {
	theT = t
	col := ev.New("C17", "unfunded-cheque",
		"complete enumeration for n=1..6 stored keys x cheque amount {balance+1, 2 x balance} x {re-vote by the same key, vote by the next key} after a deposit: the keys vote up to one below the threshold (judged by the ballot model), the completing vote arrives while the contract holds less GAS than the cheque: it must fail and leave the whole storage and every balance untouched (or, if accepted, have paid in full); then the missing GAS is deposited and a vote inside the 20-block window completes the decision: exactly one Cheque notification, payee paid once, ballot gone; non-trivial = every case",
		"the arguments of a decision are a function of its id")
	defer func() { col.Flush(true) }()
	nshards, shard := envInt("VERIF_NSHARDS", 1), envInt("VERIF_SHARD_INDEX", 0)
	idx := 0
	for n := 1; n <= 6; n++ {
		for _, factor := range []int64{1, 2} {
			for _, nextKey := range []bool{false, true} {
				idx++
				if idx%nshards != shard {
					continue
				}
				h := ev.NewHistory()
				h.Op("n=%d amount=%d x balance (+1) completing vote after the deposit by the next key=%v", n, factor, nextKey)
				if !runCase(t, col, h, func() {
					w := newC17World(n, h)
					defer w.close()
					mem := func(i int) neotest.SingleSigner { return w.signerOf(w.m.alphabet[i]) }
					bal := w.c.GAS(w.neofs)
					d := w.newDecision("cheque")
					d.amount = bal*factor + 1
					d.args = []any{d.id, d.payee, d.amount, []byte("lock-unfunded")}
					d.desc = fmt.Sprintf("cheque(%d to a payee) with %d on the contract", d.amount, bal)
					thr := w.m.threshold()
					vote := func(i int) *chainkit.Outcome {
						v := w.prepare(d, []neotest.SingleSigner{mem(i)}, fmt.Sprintf("member %d", i))
						return w.c.InvokeBlock(0, v.tx)[0]
					}
					for i := 0; i < thr-1; i++ {
						v := w.prepare(d, []neotest.SingleSigner{mem(i)}, fmt.Sprintf("member %d", i))
						w.apply(v, w.c.InvokeBlock(0, v.tx)[0])
						w.observe("votes below the threshold")
					}
					pre := w.c.Snapshot(d.payee, w.neofs)
					o := vote(thr - 1)
					h.Op("completing vote by member %d while the contract cannot pay -> %s", thr-1, o)
					if o.Halt {
						fail("C17: the vote completing %s was accepted although the contract cannot pay it: the decision is consumed without its effect", d.desc)
					}
					if df := chainkit.Diff(pre, w.c.Snapshot(d.payee, w.neofs)); len(df) != 0 {
						fail("C17: the failed completing vote of %s changed state: %v", d.desc, df)
					}
					w.observe("after the failed completing vote")
					// the funds arrive
					if o := w.c.Invoke([]neotest.Signer{w.c.Validators}, w.gas, "transfer", w.c.Validators.ScriptHash(), w.neofs, d.amount-bal+gasUnit, nil); !o.Halt {
						panic(chainkit.HarnessError{Msg: "c17 unfunded: deposit failed: " + o.Fault})
					}
					who := thr - 1
					if nextKey && thr < n {
						who = thr
					}
					v := w.prepare(d, []neotest.SingleSigner{mem(who)}, fmt.Sprintf("member %d, after the deposit", who))
					w.apply(v, w.c.InvokeBlock(0, v.tx)[0])
					w.observe("after the funded completing vote")
					if !h.Has("completed:cheque") {
						fail("C17: %s was not completed by %d distinct keys once the funds were there", d.desc, thr)
					}
					h.NonTrivial()
				}) {
					return
				}
			}
		}
	}
	col.SetExhaustive(true)
}
