package props

import (
	"fmt"
	"github.com/nspcc-dev/neo-go/pkg/core/transaction"
	"math/big"
	"strings"
	"testing"

	"pgregory.net/rapid"

	"verif/harness/chainkit"
	"verif/harness/ev"
)

func TestC05Stateful(t *testing.T) {
	theT = t
	col := ev.New("C05", "stateful",
		"rapid state machine: committee (= Alphabet) sizes 1/4/7, in half of the larger ones with fewer consensus nodes than committee members (2 of 4, 4 of 7); ContainerFee and ContainerAliasFee changed through Netmap setConfig between puts (0,1,7,12345,10^8), epoch ticks (which reach the Container contract as a subscriber) before or after the changes; before each put the owner's NEOFS balance is set to need-1 / need / need+1 / 0 / large where need=(fee[+aliasFee])*N; owners are three users and the standard account of a drawn Alphabet node (which pays one share to itself: net -need+fee); named and unnamed, fresh and repeated puts, names reused after the deletion of their previous container (the domain stays registered); oracle: success iff balance >= need; on success owner -need, every Alphabet standard account +fee per node, nobody else changes, supply unchanged, N TransferX with details 0x10||cid, container stored; on failure the full snapshot of all contracts is unchanged; non-trivial = a put at need-1 or need with fee>0 and N>1",
		"every other reason for a put to fail is excluded by construction (fresh or live-unnamed blob, valid free name, Alphabet witness)", "fee settings are non-negative")
	runRapid(t, col, func(rt *rapid.T, h *ev.History) {
		n := rapid.SampledFrom([]int{1, 4, 4, 7}).Draw(rt, "n")
		feeVals := []int64{0, 1, 7, 12345, 1_0000_0000}
		fee := rapid.SampledFrom(feeVals).Draw(rt, "fee")
		aliasFee := rapid.SampledFrom(feeVals).Draw(rt, "aliasFee")
		// the Alphabet is the committee; the consensus nodes may be fewer (e.g. 7 committee members, 4 of them validators)
		validators := 0
		if n >= 4 && rapid.Bool().Draw(rt, "fewerValidators") {
			validators = n - 2 - n/7
			h.Mark("committee-larger-than-the-validator-set")
		}
		w := newCntWorldV(n, validators, h, fee, aliasFee)
		defer w.close()
		// owner 3 is the standard account of an Alphabet node: one of its fee payments goes to itself
		w.owners = append(w.owners, w.c.Member(rapid.IntRange(0, n-1).Draw(rt, "ownerNode")))
		h.Op("N=%d fee=%d aliasFee=%d", n, fee, aliasFee)
		nodeAcc := map[string]bool{}
		for _, p := range w.c.Pubs {
			nodeAcc[hex(p.GetScriptHash().BytesBE())] = true
		}
		salt := 0
		var liveUnnamed []*cntBlob
		var liveNamed []*cntBlob
		var freeNames []string // names whose domain exists in NNS but holds no container any more
		steps := rapid.IntRange(1, 14).Draw(rt, "steps")
		epoch := int64(0)
		tick := func() {
			// an epoch tick reaches the Container contract (a subscriber of Netmap): whatever it does there, the fee of the
			// next put is the one configured in Netmap at the moment of the put
			epoch++
			if o := w.c.Invoke(w.alpha, w.nm, "newEpoch", epoch); !o.Halt {
				fail("C05 harness: newEpoch(%d): %s", epoch, o)
			}
			h.Op("newEpoch(%d)", epoch)
			h.Mark("epoch-tick-in-history")
		}
		for s := 0; s < steps; s++ {
			tickAt := rapid.SampledFrom([]string{"", "", "", "before-fee-change", "before-fee-change", "after-fee-change"}).Draw(rt, "tick")
			if tickAt == "before-fee-change" {
				tick()
			}
			if rapid.IntRange(0, 3).Draw(rt, "changeFee") == 0 {
				key := rapid.SampledFrom([]string{"ContainerFee", "ContainerAliasFee"}).Draw(rt, "feeKey")
				val := rapid.SampledFrom(feeVals).Draw(rt, "feeVal")
				o := w.c.Invoke(w.alpha, w.nm, "setConfig", []byte(fmt.Sprintf("id%d", s)), key, val)
				if !o.Halt {
					fail("C05 harness: setConfig: %s", o)
				}
				if key == "ContainerFee" {
					fee = val
				} else {
					aliasFee = val
				}
				h.Op("setConfig %s=%d", key, val)
				h.Mark("fee-changed")
			}
			if tickAt == "after-fee-change" {
				tick()
			}
			// sometimes delete a named container first: its domain stays registered and the name becomes reusable
			if len(liveNamed) > 0 && rapid.IntRange(0, 2).Draw(rt, "deleteNamed") == 0 {
				i := rapid.IntRange(0, len(liveNamed)-1).Draw(rt, "whichNamed")
				d := liveNamed[i]
				if o := w.c.Invoke(w.alpha, w.cnt, "delete", d.id, detBytes("dsig", 64), []byte{}); !o.Halt {
					fail("C05 harness: delete: %s", o)
				}
				liveNamed = append(liveNamed[:i], liveNamed[i+1:]...)
				freeNames = append(freeNames, d.name)
				h.Op("delete %s (its name %q stays registered in NNS)", d.label, d.name)
			}
			// choose the put
			var b *cntBlob
			repeated := len(liveUnnamed) > 0 && rapid.IntRange(0, 4).Draw(rt, "repeat") == 0
			if repeated {
				b = rapid.SampledFrom(liveUnnamed).Draw(rt, "liveBlob")
			} else {
				salt++
				name := ""
				if rapid.Bool().Draw(rt, "named") {
					name = fmt.Sprintf("name%d", salt)
					if len(freeNames) > 0 && rapid.Bool().Draw(rt, "reuseName") {
						// a name whose domain is already registered (its previous container was deleted)
						i := rapid.IntRange(0, len(freeNames)-1).Draw(rt, "whichFree")
						name = freeNames[i]
						freeNames = append(freeNames[:i], freeNames[i+1:]...)
						h.Mark("name-reused-after-delete")
					}
				}
				b = w.mkBlob(rapid.IntRange(0, 3).Draw(rt, "owner"), rapid.SampledFrom([]int{0, 3, 4, 5, 200}).Draw(rt, "off"), 1000+salt, name)
			}
			per := fee
			if b.name != "" {
				per += aliasFee
			}
			need := new(big.Int).Mul(bi(per), bi(int64(n)))
			owner := w.owners[b.owner].ScriptHash()
			// set the owner's balance
			cls := rapid.SampledFrom([]string{"need-1", "need", "need+1", "zero", "large"}).Draw(rt, "balanceClass")
			var target *big.Int
			switch cls {
			case "need-1":
				target = new(big.Int).Sub(need, bi(1))
			case "need":
				target = new(big.Int).Set(need)
			case "need+1":
				target = new(big.Int).Add(need, bi(1))
			case "zero":
				target = bi(0)
			default:
				target = new(big.Int).Add(new(big.Int).Mul(need, bi(3)), bi(1000))
			}
			if target.Sign() < 0 {
				target = bi(0)
			}
			cur := readBal(w.c, w.bal).bal(owner.BytesBE())
			if d := new(big.Int).Sub(target, cur); d.Sign() > 0 {
				if o := w.c.Invoke(w.alpha, w.bal, "mint", owner, d, []byte("fund")); !o.Halt {
					fail("C05 harness: mint: %s", o)
				}
			} else if d.Sign() < 0 {
				if o := w.c.Invoke(w.alpha, w.bal, "burn", owner, new(big.Int).Neg(d), []byte("defund")); !o.Halt {
					fail("C05 harness: burn: %s", o)
				}
			}
			preBal := readBal(w.c, w.bal)
			preSnap := w.c.Snapshot()
			pub := w.owners[b.owner].Account().PublicKey().Bytes()
			var o *chainkit.Outcome
			// one put in six carries the Alphabet's witness with scope CalledByEntry: valid in Container, not in Balance
			// (which Container calls to move the fee). Such a put may be refused as a whole - what may not happen is a
			// container stored without its fee
			scoped := rapid.IntRange(0, 5).Draw(rt, "calledByEntry") == 0
			if scoped {
				w.c.NextScope = transaction.CalledByEntry
				h.Mark("put-with-CalledByEntry-scope")
			}
			// every entry point and every spelling of "no name" / "default zone": the fee depends on whether a name is
			// given, not on how the call is shaped
			form := ""
			if b.name != "" {
				form = rapid.SampledFrom([]string{"putNamed(name, \"\")", "putNamed(name, \"\")", "putNamed(name, root zone spelt out)"}).Draw(rt, "form")
				zone := ""
				if strings.HasSuffix(form, "spelt out)") {
					zone = "container"
				}
				o = w.c.Invoke(w.alpha, w.cnt, "putNamed", b.value, detBytes("sig", 64), pub, []byte{}, b.name, zone)
			} else {
				form = rapid.SampledFrom([]string{"put/4", "put/4", "put/5 meta=false", "putNamed(\"\", \"\")", "putNamed(\"\", root zone)", "putNamed(\"\", another zone)"}).Draw(rt, "form")
				switch form {
				case "put/4":
					o = w.c.Invoke(w.alpha, w.cnt, "put", b.value, detBytes("sig", 64), pub, []byte{})
				case "put/5 meta=false":
					o = w.c.Invoke(w.alpha, w.cnt, "put", b.value, detBytes("sig", 64), pub, []byte{}, false)
				case "putNamed(\"\", \"\")":
					o = w.c.Invoke(w.alpha, w.cnt, "putNamed", b.value, detBytes("sig", 64), pub, []byte{}, "", "")
				case "putNamed(\"\", root zone)":
					o = w.c.Invoke(w.alpha, w.cnt, "putNamed", b.value, detBytes("sig", 64), pub, []byte{}, "", "container")
				default:
					o = w.c.Invoke(w.alpha, w.cnt, "putNamed", b.value, detBytes("sig", 64), pub, []byte{}, "", "some.zone")
				}
			}
			h.Mark("form:" + form)
			h.Op("%s: put %s repeated=%v calledByEntry=%v balance=%v(%s) need=%v (fee %d alias %d N %d) -> %s", form, b.label, repeated, scoped, target, cls, need, fee, aliasFee, n, o)
			canPay := target.Cmp(need) >= 0
			if scoped && canPay && !o.Halt {
				canPay = false
				h.Mark("scoped-put-refused")
			}
			if canPay != o.Halt {
				fail("C05: put with balance %v and need %v: expected success=%v, got %s", target, need, canPay, o)
			}
			if per > 0 && n > 1 && (cls == "need-1" || cls == "need") {
				h.NonTrivial()
			}
			if !o.Halt {
				h.Mark("refused")
				if d := chainkit.Diff(preSnap, w.c.Snapshot()); len(d) != 0 {
					fail("C05: a put that could not be paid changed state: %v", d)
				}
				if b.name != "" && !strings.HasPrefix(b.name, fmt.Sprintf("name%d", salt)) {
					freeNames = append(freeNames, b.name) // still free
				}
				continue
			}
			h.Mark("paid")
			ownerIsNode := nodeAcc[hex(owner.BytesBE())]
			if ownerIsNode {
				h.Mark("owner-is-an-alphabet-node")
			}
			if !repeated && b.name == "" {
				liveUnnamed = append(liveUnnamed, b)
			}
			if !repeated && b.name != "" {
				liveNamed = append(liveNamed, b)
			}
			post := readBal(w.c, w.bal)
			if post.supply.Cmp(preBal.supply) != 0 {
				fail("C05: supply changed %v -> %v by a container fee", preBal.supply, post.supply)
			}
			keys := map[string]bool{}
			for k := range preBal.accs {
				keys[k] = true
			}
			for k := range post.accs {
				keys[k] = true
			}
			for k := range keys {
				kb, _ := hexDecode(k)
				d := new(big.Int).Sub(post.bal(kb), preBal.bal(kb))
				var want *big.Int
				switch {
				case k == hex(owner.BytesBE()) && ownerIsNode:
					want = new(big.Int).Add(new(big.Int).Neg(need), bi(per)) // pays N shares, receives its own
				case k == hex(owner.BytesBE()):
					want = new(big.Int).Neg(need)
				case nodeAcc[k]:
					want = bi(per)
				default:
					want = bi(0)
				}
				if d.Cmp(want) != 0 {
					fail("C05: balance of %s changed by %v, expected %v (fee per node %d, N %d)", k, d, want, per, n)
				}
			}
			for k := range nodeAcc {
				kb, _ := hexDecode(k)
				if d := new(big.Int).Sub(post.bal(kb), preBal.bal(kb)); d.Cmp(bi(per)) != 0 && k != hex(owner.BytesBE()) {
					fail("C05: Alphabet node %s received %v, expected %d", k, d, per)
				}
			}
			_, trx := parseXfers(o.Events, w.bal)
			if len(trx) != n {
				fail("C05: %d TransferX notifications for %d Alphabet nodes", len(trx), n)
			}
			seen := map[string]bool{}
			for _, x := range trx {
				if string(x.from) != string(owner.BytesBE()) || !nodeAcc[hex(x.to)] || seen[hex(x.to)] || x.amount.Cmp(bi(per)) != 0 {
					fail("C05: unexpected fee transfer %x -> %x amount %v", x.from, x.to, x.amount)
				}
				seen[hex(x.to)] = true
				if len(x.details) != 33 || x.details[0] != 0x10 || string(x.details[1:]) != string(b.id) {
					fail("C05: fee transfer details %x are not 0x10||cid", x.details)
				}
			}
			if g := w.c.Call(nil, w.cnt, "get", b.id); !g.Halt {
				fail("C05: paid container is not stored: %s", g)
			}
		}
	})
}
