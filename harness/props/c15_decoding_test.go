package props

import (
	"fmt"
	"math/big"
	"reflect"
	"strings"
	"testing"

	"github.com/google/uuid"
	"github.com/nspcc-dev/neo-go/pkg/crypto/keys"
	"github.com/nspcc-dev/neo-go/pkg/neorpc/result"
	"github.com/nspcc-dev/neo-go/pkg/util"
	"github.com/nspcc-dev/neo-go/pkg/vm/stackitem"

	"verif/harness/chainkit"
	"verif/harness/ev"

	rpcalphabet "github.com/nspcc-dev/neofs-contract/rpc/alphabet"
	rpcaudit "github.com/nspcc-dev/neofs-contract/rpc/audit"
	rpcbalance "github.com/nspcc-dev/neofs-contract/rpc/balance"
	rpccontainer "github.com/nspcc-dev/neofs-contract/rpc/container"
	rpcneofs "github.com/nspcc-dev/neofs-contract/rpc/neofs"
	rpcneofsid "github.com/nspcc-dev/neofs-contract/rpc/neofsid"
	rpcnetmap "github.com/nspcc-dev/neofs-contract/rpc/netmap"
	rpcnns2 "github.com/nspcc-dev/neofs-contract/rpc/nns"
	rpcprocessing "github.com/nspcc-dev/neofs-contract/rpc/processing"
	rpcproxy "github.com/nspcc-dev/neofs-contract/rpc/proxy"
	rpcreputation "github.com/nspcc-dev/neofs-contract/rpc/reputation"
)

// chainActor answers the calls of a generated ContractReader by test invocations of the contracts compiled from
// the working tree and deployed on an in-memory chain (iterators are returned expanded).
type chainActor struct {
	c    *chainkit.Chain
	last *chainkit.Outcome
	op   string
}

func (a *chainActor) run(h util.Uint160, op string, params ...any) (*result.Invoke, error) {
	o := a.c.Call(nil, h, op, params...)
	a.last, a.op = o, op
	st := "FAULT"
	if o.Halt {
		st = "HALT"
	}
	return &result.Invoke{State: st, Stack: o.Stack, FaultException: o.Fault}, nil
}
func (a *chainActor) Call(h util.Uint160, op string, params ...any) (*result.Invoke, error) {
	return a.run(h, op, params...)
}
func (a *chainActor) CallAndExpandIterator(h util.Uint160, op string, max int, params ...any) (*result.Invoke, error) {
	return a.run(h, op, params...)
}
func (a *chainActor) TerminateSession(uuid.UUID) error { return nil }
func (a *chainActor) TraverseIterator(uuid.UUID, *result.Iterator, int) ([]stackitem.Item, error) {
	return nil, fmt.Errorf("no sessions")
}

// TestC15Decoding: "the right result decoding" - every reader method of every generated binding is called against
// the real contracts of the working tree on a prepared world; whenever the contract answers (HALT), the binding
// must be able to decode the answer into its declared Go type, and scalar results must equal the stack item.
func TestC15Decoding(t *testing.T) {
	theT = t
	col := ev.New("C15", "decoding",
		"every method of every generated ContractReader (11 packages, found by reflection; session-iterator variants excepted, their Expanded twins are called) is invoked with up to 12 argument tuples from typed pools of the prepared C03 world (live containers with roster and eACL, NNS names with records, funded accounts, network map epochs, audit/reputation entries) against a chain-backed invoker that runs the contracts compiled from the working tree; oracle: whenever the invocation HALTs with a non-null result the binding returns no decoding error, and results of type *big.Int, bool, []byte, string, util.Uint160 equal the independently decoded stack item; non-trivial = a call that HALTed with a non-null result")
	col.SetLevel("translation_validation")
	defer func() { col.Flush(true) }()
	h := ev.NewHistory()
	evals, halts := 0, 0
	ok := runCase(t, col, h, func() {
		e := newC03Env(1)
		defer e.c.Close()
		c := e.c
		a := &chainActor{c: c}
		readers := map[string]any{
			"alphabet": rpcalphabet.NewReader(a, e.h["alphabet0"]), "audit": rpcaudit.NewReader(a, e.h["audit"]), "balance": rpcbalance.NewReader(a, e.h["balance"]),
			"container": rpccontainer.NewReader(a, e.h["container"]), "neofs": rpcneofs.NewReader(a, e.h["neofs"]), "neofsid": rpcneofsid.NewReader(a, e.h["neofsid"]),
			"netmap": rpcnetmap.NewReader(a, e.h["netmap"]), "nns": rpcnns2.NewReader(a, e.h["nns"]), "processing": rpcprocessing.NewReader(a, e.h["processing"]),
			"proxy": rpcproxy.NewReader(a, e.h["proxy"]), "reputation": rpcreputation.NewReader(a, e.h["reputation"]),
		}
		var id256, id256b util.Uint256
		copy(id256[:], e.blob.id)
		copy(id256b[:], e.blob2.id)
		pool := func(t reflect.Type, i int) (reflect.Value, bool) {
			pick := func(vs ...any) (reflect.Value, bool) { return reflect.ValueOf(vs[i%len(vs)]), true }
			switch t {
			case reflect.TypeOf((*big.Int)(nil)):
				return pick(big.NewInt(1), big.NewInt(2), big.NewInt(16), big.NewInt(0), big.NewInt(6))
			case reflect.TypeOf((*keys.PublicKey)(nil)):
				return pick(e.node.Account().PublicKey(), e.ir[0].PublicKey(), e.u0.Account().PublicKey(), c.Pubs[0])
			case reflect.TypeOf(util.Uint160{}):
				return pick(e.u0.ScriptHash(), e.u1.ScriptHash(), e.h["container"], e.strng.ScriptHash())
			case reflect.TypeOf(util.Uint256{}):
				return pick(id256, id256b, util.Uint256{1})
			case reflect.TypeOf([]byte{}):
				return pick(e.blob.id, e.blob2.id, ownerID(e.u0.ScriptHash()), ownerID(e.u1.ScriptHash()), e.node.Account().PublicKey().Bytes(), []byte("k"), []byte{})
			case reflect.TypeOf(""):
				return pick("c03.neofs", "sub.c03.neofs", "neofs", "container", "x.c03.neofs")
			}
			return reflect.Value{}, false
		}
		// listed finding: the reader of container.eACL cannot decode the contract's "no table" answer (empty public key).
		// Its witness is replayed; while it still fails, exactly that outcome (container.EACL, field Pub, empty item) is
		// excluded and counted, anything else is a violation.
		forgiveEACL := false
		{
			_, werr := readers["container"].(*rpccontainer.ContractReader).EACL(e.blob2.id)
			witnessFails := werr != nil && a.last != nil && a.last.Halt && strings.Contains(werr.Error(), "field Pub")
			if witnessFails {
				if _, listed := ev.KnownListed("C15", "KF-C15-eacl-empty-pubkey"); listed {
					col.ReportKnown("KF-C15-eacl-empty-pubkey", "rpc/container ContractReader.EACL cannot decode the contract's answer for a live container without eACL (struct of empty byte strings; field Pub: EOF)")
					forgiveEACL = true
				}
			}
		}
		names := make([]string, 0, len(readers))
		for n := range readers {
			names = append(names, n)
		}
		sortStrings(names)
		for _, name := range names {
			v := reflect.ValueOf(readers[name])
			for mi := 0; mi < v.NumMethod(); mi++ {
				m := v.Type().Method(mi)
				mt := v.Method(mi).Type()
				session := false
				for k := 0; k < mt.NumOut(); k++ {
					if mt.Out(k) == reflect.TypeOf(uuid.UUID{}) || mt.Out(k) == reflect.TypeOf(result.Iterator{}) {
						session = true
					}
				}
				if session {
					continue
				}
				tuples := 12
				if mt.NumIn() == 0 {
					tuples = 1
				}
				for tu := 0; tu < tuples; tu++ {
					args := make([]reflect.Value, mt.NumIn())
					for j := range args {
						idx := tu
						if tu >= 6 {
							idx = tu + j // mixed positions
						}
						if val, ok := pool(mt.In(j), idx); ok {
							args[j] = val
						} else {
							args[j] = fill(mt.In(j), 0)
						}
					}
					a.last = nil
					var outs []reflect.Value
					func() {
						defer func() {
							if r := recover(); r != nil {
								if _, harness := r.(chainkit.HarnessError); harness {
									outs = nil // arguments the script builder cannot encode: not a call
									return
								}
								fail("C15: binding %s.%s panicked: %v", name, m.Name, r)
							}
						}()
						if mt.IsVariadic() {
							outs = v.Method(mi).CallSlice(args)
						} else {
							outs = v.Method(mi).Call(args)
						}
					}()
					if outs == nil || a.last == nil {
						continue
					}
					evals++
					if !a.last.Halt {
						continue
					}
					var err error
					if e, isErr := outs[len(outs)-1].Interface().(error); isErr {
						err = e
					}
					argS := make([]string, len(args))
					for j := range args {
						argS[j] = strings.TrimSpace(fmt.Sprintf("%.40v", args[j].Interface()))
					}
					if len(a.last.Stack) == 1 && a.last.Stack[0].Type() == stackitem.AnyT {
						// Null ("no such entry"): the generated readers of plain types report it as an error by design
						continue
					}
					if err != nil && forgiveEACL && name == "container" && m.Name == "EACL" && strings.Contains(err.Error(), "field Pub") && emptyField(a.last.Stack[0], 2) {
						col.Exclude("KF-C15-eacl-empty-pubkey")
						continue
					}
					if err != nil && strings.Contains(err.Error(), "InteropInterface") {
						// a session-iterator reader (e.g. the embedded NEP-11 ones): this invoker returns iterators expanded
						col.Count("skipped:session-iterator-reader", 1)
						continue
					}
					if err != nil {
						fail("C15: binding %s.%s(%s) cannot decode what the contract of the working tree returns for %s: %v; stack %s", name, m.Name, strings.Join(argS, ","), a.op, err, chainkit.ItemsString(a.last.Stack))
					}
					if len(a.last.Stack) == 1 && a.last.Stack[0].Type() != stackitem.AnyT {
						halts++
						if halts <= 5 {
							h.Op("%s.%s(%s) -> %s", name, m.Name, strings.Join(argS, ","), chainkit.ItemsString(a.last.Stack))
						}
						it := a.last.Stack[0]
						switch got := outs[0].Interface().(type) {
						case *big.Int:
							if w, e2 := it.TryInteger(); e2 == nil && got.Cmp(w) != 0 {
								fail("C15: binding %s.%s decodes %v, the contract returned %v", name, m.Name, got, w)
							}
						case bool:
							if w, e2 := it.TryBool(); e2 == nil && got != w {
								fail("C15: binding %s.%s decodes %v, the contract returned %v", name, m.Name, got, w)
							}
						case []byte:
							if w, e2 := it.TryBytes(); e2 == nil && string(got) != string(w) {
								fail("C15: binding %s.%s decodes %x, the contract returned %x", name, m.Name, got, w)
							}
						case string:
							if w, e2 := it.TryBytes(); e2 == nil && got != string(w) {
								fail("C15: binding %s.%s decodes %q, the contract returned %q", name, m.Name, got, w)
							}
						case util.Uint160:
							if w, e2 := it.TryBytes(); e2 == nil && string(got.BytesBE()) != string(w) {
								fail("C15: binding %s.%s decodes %s, the contract returned %x", name, m.Name, got.StringLE(), w)
							}
						}
					}
				}
			}
		}
		h.NonTrivial()
	})
	col.Bulk(evals, halts)
	col.Extra("reader_calls", evals)
	col.Extra("reader_calls_answered", halts)
	_ = ok
}

// emptyField: item is a struct/array whose i-th field is an empty byte string.
func emptyField(it stackitem.Item, i int) bool {
	arr, ok := it.Value().([]stackitem.Item)
	if !ok || i >= len(arr) {
		return false
	}
	b, err := arr[i].TryBytes()
	return err == nil && len(b) == 0
}
