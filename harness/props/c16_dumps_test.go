package props

import (
	"fmt"
	"os"
	"path/filepath"
	"sort"
	"testing"

	"github.com/nspcc-dev/neo-go/pkg/vm/stackitem"
	"github.com/nspcc-dev/neofs-contract/tests/dump"
	"github.com/nspcc-dev/neofs-contract/tests/migration"

	"verif/harness/chainkit"
	"verif/harness/ev"
)

// dumpRead is one read invocation compared before and after the update.
type dumpRead struct {
	method string
	args   []any
}

func (r dumpRead) String() string { return r.method + shortArgs(r.args) }

// dumpCall runs a read method on the dumped contract; a fault is an outcome, not an error.
func dumpCall(tb *chainkit.TB, c *migration.Contract, r dumpRead) (res string) {
	defer func() {
		if p := recover(); p != nil {
			res = "FAULT"
		}
	}()
	st, err := c.TestInvoke(tb, r.method, r.args...)
	if err != nil {
		return "FAULT"
	}
	items := st.ToArray()
	if r.method == "netmap" || r.method == "snapshot" || r.method == "netmapCandidates" {
		// the node structure grew a state field in 0.16 ({BLOB} / {{BLOB},state} -> {BLOB,state}):
		// compare nodes as (blob, state) with the state the old format implied (Online)
		var nodes []string
		for _, it := range items {
			arr, _ := it.Value().([]stackitem.Item)
			for _, n := range arr {
				var blob string
				state := "i1"
				var walk func(x stackitem.Item)
				walk = func(x stackitem.Item) {
					switch x.Type() {
					case stackitem.ArrayT, stackitem.StructT:
						for _, y := range x.Value().([]stackitem.Item) {
							walk(y)
						}
					case stackitem.IntegerT:
						state = chainkit.ItemString(x)
					default:
						blob = chainkit.ItemString(x)
					}
				}
				walk(n)
				nodes = append(nodes, blob+"|"+state)
			}
		}
		sort.Strings(nodes)
		return fmt.Sprint(nodes)
	}
	for i, it := range items {
		if it.Type() == stackitem.InteropT {
			if x, ok := it.Value().(interface {
				Next() bool
				Value() stackitem.Item
			}); ok {
				var vals []string
				for len(vals) < 5000 && x.Next() {
					vals = append(vals, chainkit.ItemString(x.Value()))
				}
				sort.Strings(vals)
				items[i] = stackitem.Make(fmt.Sprint(vals))
			}
		}
	}
	return chainkit.ItemsString(items)
}

// dumpReads derives the read calls from the storage of the dumped contract.
func dumpReads(name string, c *migration.Contract) []dumpRead {
	var reads []dumpRead
	add := func(m string, a ...any) { reads = append(reads, dumpRead{m, a}) }
	limit := 0
	switch name {
	case "balance":
		add("totalSupply")
		add("decimals")
		add("symbol")
		c.SeekStorage(nil, func(k, v []byte) bool {
			if len(k) == 20 || (len(k) == 21 && k[0] == 'a') {
				add("balanceOf", append([]byte{}, k[len(k)-20:]...))
				limit++
			}
			return limit < 400
		})
	case "container":
		add("list", []byte{})
		owners := map[string]bool{}
		c.SeekStorage(nil, func(k, v []byte) bool {
			var cid []byte
			switch {
			case len(k) == 32:
				cid = k
			case len(k) == 33 && k[0] == 'x':
				cid = k[1:]
			case len(k) == 57:
				owners[string(k[:25])] = true
			case len(k) == 58 && k[0] == 'o':
				owners[string(k[1:26])] = true
			}
			if cid != nil && limit < 150 {
				limit++
				id := append([]byte{}, cid...)
				add("get", id)
				add("owner", id)
				add("eACL", id)
			}
			return true
		})
		for o := range owners {
			add("list", []byte(o))
		}
	case "netmap":
		add("epoch")
		add("netmap")
		add("netmapCandidates")
		add("listConfig")
		for d := 0; d < 12; d++ {
			add("snapshot", d)
		}
		c.SeekStorage([]byte("config"), func(k, v []byte) bool {
			add("config", append([]byte{}, k...))
			return true
		})
	case "neofsid":
		owners := map[string]bool{}
		c.SeekStorage([]byte{'o'}, func(k, v []byte) bool {
			if len(k) >= 25 {
				owners[string(k[:25])] = true
			}
			return len(owners) < 200
		})
		for o := range owners {
			add("key", []byte(o))
		}
	case "audit":
		add("list")
		c.SeekStorage(nil, func(k, v []byte) bool {
			if len(k) > 40 && limit < 100 {
				limit++
				add("get", append([]byte{}, k...))
			}
			return true
		})
	case "reputation":
		c.SeekStorage([]byte{'c'}, func(k, v []byte) bool {
			if limit < 100 {
				limit++
				add("getByID", append([]byte{}, k...))
			}
			return true
		})
		for e := 0; e < 6; e++ {
			add("listByEpoch", e)
		}
	}
	sort.Slice(reads, func(i, j int) bool { return reads[i].String() < reads[j].String() })
	return reads
}

// TestC16Dumps: the recorded network dumps are updated to the working tree's
// contracts; the read API must answer the same before (real old executable)
// and after.
func TestC16Dumps(t *testing.T) {
	theT = t
	col := ev.New("C16", "dumps",
		"the two recorded network dumps of /repo/testdata (testnet v0.15.4, mainnet v0.16.x: real old executables with their real storage) x {balance, container, netmap, neofsid, audit, reputation}: every read call derived from the stored keys (balanceOf of every account, get/owner/eACL of every container and list of every owner, epoch/netmap/candidates/snapshots/config, key of every owner, audit results, reputation values) is evaluated on the old executable, the contract is updated to the working tree's executable by the committee, and evaluated again; values must be equal (compared by value, never by stack-item type); a dump whose version is outside the supported window must be refused; non-trivial = every (dump, contract) with at least 3 read calls",
		"subnet (removed contract) and alphabet (needs a Proxy deployment with funds) are not replayed")
	defer func() { col.Flush(true) }()
	repo := chainkit.RepoDir()
	cwd, _ := os.Getwd()
	defer os.Chdir(cwd)
	// the repository's migration helper compiles NNS from "../nns"
	if err := os.Chdir(filepath.Join(repo, "contracts", "balance")); err != nil {
		panic(chainkit.HarnessError{Msg: err.Error()})
	}
	V, prev := curVersion(), prevVersion()
	err := dump.IterateDumps(filepath.Join(repo, "testdata"), func(id dump.ID, r *dump.Reader) {
		for _, name := range []string{"balance", "container", "netmap", "neofsid", "audit", "reputation"} {
			h := ev.NewHistory()
			h.Op("dump %s contract %s", id.String(), name)
			runCase(t, col, h, func() {
				tb := chainkit.NewTB(t)
				defer tb.RunCleanups()
				c := migration.NewContract(tb, r, name, migration.ContractOptions{SourceCodeDir: filepath.Join(repo, "contracts", name)})
				vi, err := c.Call(tb, "version").TryInteger()
				if err != nil {
					fail("C16: dumped %s has no integer version", name)
				}
				v := vi.Int64()
				reads := dumpReads(name, c)
				before := make([]string, len(reads))
				for i, rd := range reads {
					before[i] = dumpCall(tb, c, rd)
				}
				var args []any
				if name == "netmap" {
					args = []any{false, nil, nil, []any{}, []any{}}
				}
				blocked := false
				if nv := c.GetStorageItem([]byte("notary")); len(nv) == 1 && nv[0] == 1 {
					if b := c.GetStorageItem([]byte("ballots")); b != nil && name != "audit" {
						if it, err := stackitem.Deserialize(b); err == nil {
							if arr, ok := it.Value().([]stackitem.Item); ok {
								cur := int64(c.Chain.BlockHeight())
								for _, bl := range arr {
									f, _ := bl.Value().([]stackitem.Item)
									if len(f) == 3 {
										if hgt, err := f[2].TryInteger(); err == nil && cur-hgt.Int64() <= 20 {
											blocked = true
										}
									}
								}
							}
						}
					}
				}
				ok := updateDump(tb, c, args)
				h.Op("version %d, %d read calls, update -> success=%v", v, len(reads), ok)
				want := v >= prev && v < V && !blocked
				if ok != want {
					fail("C16: update of dumped %s %s from version %d: success=%v, expected %v (window [%d,%d), pending vote %v)", id.String(), name, v, ok, want, prev, V, blocked)
				}
				if !ok {
					return
				}
				for i, rd := range reads {
					after := dumpCall(tb, c, rd)
					if after != before[i] {
						fail("C16: %s of the %s dump: %s answered %s before the update from %d and %s after", name, id.String(), rd, clip(before[i]), v, clip(after))
					}
				}
				if nv, err := c.Call(tb, "version").TryInteger(); err != nil || nv.Int64() != V {
					fail("C16: version() after updating the dumped %s is %v", name, nv)
				}
				if len(reads) >= 3 {
					h.NonTrivial()
				}
				col.Count("dump-read-calls", len(reads))
			})
		}
	})
	if err != nil {
		panic(chainkit.HarnessError{Msg: "dumps: " + err.Error()})
	}
	col.SetExhaustive(true)
}

// updateDump invokes update by the committee; reports whether it HALTed.
func updateDump(tb *chainkit.TB, c *migration.Contract, args []any) (ok bool) {
	defer func() {
		if p := recover(); p != nil {
			ok = false
		}
	}()
	c.CheckUpdateSuccess(tb, args...)
	return true
}
