package props

import (
	"encoding/json"
	"fmt"
	"github.com/nspcc-dev/neo-go/pkg/core/transaction"
	"os"
	"path/filepath"
	"sort"
	"strings"
	"testing"

	"github.com/nspcc-dev/neo-go/pkg/core/native/nativenames"
	"github.com/nspcc-dev/neo-go/pkg/crypto/keys"
	"github.com/nspcc-dev/neo-go/pkg/neotest"
	"github.com/nspcc-dev/neo-go/pkg/smartcontract/manifest"
	"github.com/nspcc-dev/neo-go/pkg/util"
	"github.com/nspcc-dev/neo-go/pkg/vm/stackitem"

	"verif/harness/chainkit"
	"verif/harness/ev"
)

// c03Env is one fully deployed world: all FS chain contracts plus NeoFS and
// Processing on an n-key chain, prepared so that every method has a valid call.
type c03Env struct {
	c       *chainkit.Chain
	h       map[string]util.Uint160
	u0, u1  neotest.SingleSigner
	u2      neotest.SingleSigner
	node    neotest.SingleSigner
	ir      []*keys.PrivateKey
	cand    neotest.SingleSigner
	blob    *cntBlob
	blob2   *cntBlob // a live container of u1 without the meta flag and without eACL
	cw      *cntWorld
	strng   neotest.SingleSigner
	watch   []util.Uint160
	sigKeys []*keys.PrivateKey
	seq     int // bumped for every class tried (lets argument tuples stay fresh)
}

func newC03Env(n int) *c03Env {
	// (on the 7-key committee only 4 members are consensus nodes: Alphabet and committee are defined by the
	// committee, not by the validator set)
	c := chainkit.NewChain(theT, n, chainkit.Options{Validators: map[int]int{7: 4}[n]})
	fs := chainkit.NewFS(c, chainkit.FSOptions{Contracts: []string{"netmap", "balance", "neofsid", "container", "proxy", "audit", "reputation", "alphabet"},
		NetmapConfig: []any{"ContainerFee", int64(0), "ContainerAliasFee", int64(0)}})
	e := &c03Env{c: c, h: fs.H}
	alpha := []neotest.Signer{c.Alphabet}
	e.u0, e.u1 = chainkit.NamedUser("c03-u0"), chainkit.NamedUser("c03-u1")
	e.u2 = chainkit.NamedUser("c03-u2")
	e.node = chainkit.NamedUser("c03-node")
	e.cand = chainkit.NamedUser("c03-cand")
	e.strng = chainkit.NamedUser("c03-stranger")
	for _, u := range []neotest.SingleSigner{e.u0, e.u1, e.cand} {
		c.FundGAS(u.ScriptHash(), 100*gasUnit)
	}
	// main chain contracts on the same chain (Notary mode: Alphabet = chain committee)
	procC := chainkit.Contract("processing")
	e.h["processing"] = procC.HashFor(c.Committee.ScriptHash())
	pubs := make([]any, len(c.Pubs))
	for i := range c.Pubs {
		pubs[i] = c.Pubs[i].Bytes()
	}
	o, hN := c.DeployWith(c.Both(), chainkit.Contract("neofs"), []any{false, e.h["processing"], pubs, []any{"InnerRingCandidateFee", int64(1), "WithdrawFee", int64(1)}})
	if !o.Halt {
		panic(chainkit.HarnessError{Msg: "c03: deploy neofs: " + o.Fault})
	}
	e.h["neofs"] = hN
	if o, _ := c.DeployWith(c.Both(), procC, []any{hN}); !o.Halt {
		panic(chainkit.HarnessError{Msg: "c03: deploy processing: " + o.Fault})
	}
	// Inner Ring (NeoFSAlphabet role): keys different from the committee
	var irPubs keys.PublicKeys
	for i := 0; i < 4; i++ {
		k := chainkit.DetKey(fmt.Sprintf("c03-ir-%d", i))
		e.ir = append(e.ir, k)
		irPubs = append(irPubs, k.PublicKey())
		e.watch = append(e.watch, k.PublicKey().GetScriptHash())
	}
	c.DesignateAlphabet(irPubs)
	must := func(what string, o *chainkit.Outcome) {
		if !o.Halt {
			panic(chainkit.HarnessError{Msg: "c03 preparation: " + what + ": " + o.Fault})
		}
	}
	// balances
	must("mint", c.Invoke(alpha, e.h["balance"], "mint", e.u0.ScriptHash(), int64(1000), []byte("p")))
	must("mint", c.Invoke(alpha, e.h["balance"], "mint", e.u1.ScriptHash(), int64(1000), []byte("p")))
	// a live, meta-enabled container of u0 with a committed one-node roster
	e.cw = &cntWorld{c: c, fs: fs, cnt: e.h["container"], bal: e.h["balance"], nm: e.h["netmap"], nns: e.h["nns"], alpha: alpha, owners: []neotest.SingleSigner{e.u0, e.u1, e.strng}}
	e.blob = e.cw.mkBlob(0, 0, 1, "")
	must("put", c.Invoke(alpha, e.h["container"], "put", e.blob.value, detBytes("sig", 64), e.u0.Account().PublicKey().Bytes(), []byte{}, true))
	e.blob2 = e.cw.mkBlob(1, 0, 90, "")
	must("put2", c.Invoke(alpha, e.h["container"], "put", e.blob2.value, detBytes("sig", 64), e.u1.Account().PublicKey().Bytes(), []byte{}))
	sk := chainkit.DetKey("c03-placement")
	e.sigKeys = []*keys.PrivateKey{sk}
	must("roster", c.Invoke(alpha, e.h["container"], "addNextEpochNodes", e.blob.id, 0, []any{sk.PublicKey().Bytes()}))
	must("roster", c.Invoke(alpha, e.h["container"], "commitContainerListUpdate", e.blob.id, []any{1}))
	// a storage node that is in the previous epoch's map
	must("addPeerIR", c.Invoke(alpha, e.h["netmap"], "addPeerIR", legacyInfo(e.node.Account().PublicKey().Bytes(), 1)))
	must("tick", c.Invoke(alpha, e.h["netmap"], "newEpoch", 1))
	must("tick", c.Invoke(alpha, e.h["netmap"], "newEpoch", 2))
	// an NNS name of u0 with a record
	must("register", c.Invoke([]neotest.Signer{e.u0}, e.h["nns"], "register", "c03.neofs", e.u0.ScriptHash(), "m@nspcc.io", int64(1), int64(2), int64(31536000), int64(3)))
	must("addRecord", c.Invoke([]neotest.Signer{e.u0}, e.h["nns"], "addRecord", "c03.neofs", recTXT, "initial"))
	// u1 is the name's delegated admin: delegation must not widen what only the owner may do
	must("setAdmin", c.Invoke([]neotest.Signer{e.u0, e.u1}, e.h["nns"], "setAdmin", "c03.neofs", e.u1.ScriptHash()))
	// a third-level name that belongs to somebody else (u2, no admin): who owns the second level has no say below it
	must("register level 3", c.Invoke([]neotest.Signer{e.u0, e.u2}, e.h["nns"], "register", "sub.c03.neofs", e.u2.ScriptHash(), "m@nspcc.io", int64(1), int64(2), int64(31536000), int64(3)))
	// funds
	gas := c.NativeHash(nativenames.Gas)
	must("deposit", c.Invoke([]neotest.Signer{e.u1}, gas, "transfer", e.u1.ScriptHash(), e.h["neofs"], 50*gasUnit, nil))
	must("fund alphabet0", c.Invoke([]neotest.Signer{c.Validators}, gas, "transfer", c.Validators.ScriptHash(), e.h["alphabet0"], 100*gasUnit, nil))
	must("neofsid", c.Invoke(alpha, e.h["neofsid"], "addKey", ownerID(e.u0.ScriptHash()), []any{e.u0.Account().PublicKey().Bytes()}))
	e.watch = append(e.watch, e.u0.ScriptHash(), e.u1.ScriptHash(), e.cand.ScriptHash(), e.strng.ScriptHash(), e.node.ScriptHash())
	return e
}

// requirement kinds
const (
	reqAlphabet  = "alphabet"        // Alphabet 2n/3+1 multisignature
	reqCommittee = "committee"       // committee majority n/2+1
	reqKeyAlpha  = "key+alphabet"    // the named key and the Alphabet
	reqKey       = "key"             // the named key / user / owner only
	reqTwoKeys   = "two-keys"        // owner and a second named key (NNS setAdmin)
	reqKeyOrAlph = "key-or-alphabet" // the named key or the Alphabet
	reqRole      = "role-majority"   // majority of the NeoFSAlphabet role keys
	reqNone      = "none"            // no witness (succeeds for anybody)
	reqCallback  = "callback"        // must be inert when invoked directly by anybody
	reqInternal  = "internal"        // not callable from outside at all
	reqCustom    = "custom"          // the row lists its classes itself
)

type c03Row struct {
	req  string
	args func(e *c03Env) []any
	key  func(e *c03Env) neotest.Signer // the named key
	key2 func(e *c03Env) neotest.Signer
	// delegate: a key that holds a delegated (weaker or equal) right on the object, e.g. an NNS admin
	delegate        func(e *c03Env) neotest.Signer
	delegateAllowed bool
	also            func(e *c03Env) []c03Class       // further deficient classes specific to the method
	falsey          bool                             // refusal is HALT(false)
	target          string                           // key in e.h when it is not the contract name
	variant         string                           // further situations of the same method (c03Variants)
	custom          func(e *c03Env) []c03Class       // req = reqCustom: the complete class list
	classArgs       map[string]func(e *c03Env) []any // arguments of a class (by name) when they differ from the row's
}

func same(args ...any) func(*c03Env) []any { return func(*c03Env) []any { return args } }

func c03Table() map[string]c03Row {
	u0 := func(e *c03Env) neotest.Signer { return e.u0 }
	u1 := func(e *c03Env) neotest.Signer { return e.u1 }
	node := func(e *c03Env) neotest.Signer { return e.node }
	upd := func(name string) c03Row {
		return c03Row{req: reqCommittee, args: func(e *c03Env) []any {
			nv := bumped(name)
			if name == "alphabet" {
				nv = chainkit.CompileDir(filepath.Join(bumpedRepo(), "contracts", "alphabet"), "alphabet0")
			}
			return updateArgs(name, nv, nil)
		}}
	}
	pub := func(s neotest.SingleSigner) []byte { return s.Account().PublicKey().Bytes() }
	t := map[string]c03Row{
		// ---- alphabet
		"alphabet.emit/0": {req: reqKey, args: same(), key: func(e *c03Env) neotest.Signer { return e.c.Member(0) },
			// the Inner Ring (NeoFSAlphabet role) is another key list than the Alphabet (committee): none of its nodes,
			// at whatever position of the sorted role list, may emit
			also: func(e *c03Env) []c03Class {
				var cl []c03Class
				for i, k := range e.ir {
					cl = append(cl, c03Class{fmt.Sprintf("Inner Ring node %d of the NeoFSAlphabet role (not an Alphabet node)", i), []neotest.Signer{neotest.NewSingleSigner(walletOf(k))}, false})
				}
				return cl
			}},
		"alphabet.vote/2":           {req: reqAlphabet, args: func(e *c03Env) []any { return []any{int64(2), []any{e.c.Pubs[0].Bytes()}} }},
		"alphabet.onNEP17Payment/3": {req: reqCallback, args: func(e *c03Env) []any { return []any{e.u0.ScriptHash(), int64(5), nil} }},
		"alphabet.update/3":         upd("alphabet"),
		// ---- audit
		"audit.put/1": {req: reqKey, args: func(e *c03Env) []any {
			return []any{auditBlob(0, 3, detBytes("cid", 32), e.ir[0].PublicKey().Bytes(), 1)}
		}, key: func(e *c03Env) neotest.Signer { return neotest.NewSingleSigner(walletOf(e.ir[0])) },
			// the result names its author: a colleague's witness (also an Inner Ring member) does not stand in for it
			also: func(e *c03Env) []c03Class {
				var cl []c03Class
				for i := 1; i < len(e.ir); i++ {
					cl = append(cl, c03Class{fmt.Sprintf("Inner Ring node %d, while the result names node 0 as its author", i), []neotest.Signer{neotest.NewSingleSigner(walletOf(e.ir[i]))}, false})
				}
				var all []*keys.PrivateKey
				all = append(all, e.ir[1:]...)
				cl = append(cl, c03Class{"the other three Inner Ring nodes as a multisignature", []neotest.Signer{chainkit.Multisig(3, all)}, false})
				return cl
			}},
		"audit.update/3": upd("audit"),
		// ---- balance
		"balance.burn/3": {req: reqAlphabet, args: func(e *c03Env) []any { return []any{e.u0.ScriptHash(), int64(5), []byte("d")} }},
		"balance.lock/5": {req: reqAlphabet, args: func(e *c03Env) []any {
			return []any{[]byte("d"), e.u0.ScriptHash(), util.Uint160{0xaa, 1}, int64(5), int64(9)}
		}},
		"balance.mint/3":      {req: reqAlphabet, args: func(e *c03Env) []any { return []any{e.u0.ScriptHash(), int64(5), []byte("d")} }},
		"balance.newEpoch/1":  {req: reqAlphabet, args: same(int64(7))},
		"balance.transfer/4":  {req: reqKey, args: func(e *c03Env) []any { return []any{e.u0.ScriptHash(), e.u1.ScriptHash(), int64(5), nil} }, key: u0, falsey: true},
		"balance.transferX/4": {req: reqAlphabet, args: func(e *c03Env) []any { return []any{e.u0.ScriptHash(), e.u1.ScriptHash(), int64(5), []byte("d")} }},
		"balance.update/3":    upd("balance"),
		// ---- container
		"container.addNextEpochNodes/3":         {req: reqAlphabet, args: func(e *c03Env) []any { return []any{e.blob.id, 0, []any{synthKey(1)}} }},
		"container.commitContainerListUpdate/2": {req: reqAlphabet, args: func(e *c03Env) []any { return []any{e.blob.id, []any{1}} }},
		"container.delete/3":                    {req: reqAlphabet, args: func(e *c03Env) []any { return []any{e.blob.id, detBytes("s", 64), []byte{}} }},
		"container.newEpoch/1":                  {req: reqAlphabet, args: same(int64(9))},
		"container.onNEP11Payment/4":            {req: reqNone, args: func(e *c03Env) []any { return []any{e.u0.ScriptHash(), int64(1), []byte("tok"), nil} }},
		"container.put/4": {req: reqAlphabet, args: func(e *c03Env) []any {
			b := e.cw.mkBlob(1, 0, 2, "")
			return []any{b.value, detBytes("s", 64), pub(e.u1), []byte{}}
		}},
		"container.put/5": {req: reqAlphabet, args: func(e *c03Env) []any {
			b := e.cw.mkBlob(1, 0, 3, "")
			return []any{b.value, detBytes("s", 64), pub(e.u1), []byte{}, true}
		}},
		"container.putNamed/6": {req: reqAlphabet, args: func(e *c03Env) []any {
			b := e.cw.mkBlob(1, 0, 4, "c03name")
			return []any{b.value, detBytes("s", 64), pub(e.u1), []byte{}, "c03name", ""}
		}},
		"container.putContainerSize/4": {req: reqKey, args: func(e *c03Env) []any { return []any{int64(2), e.blob.id, int64(100), pub(e.node)} }, key: node},
		"container.setEACL/4": {req: reqAlphabet, args: func(e *c03Env) []any {
			return []any{mkEACL(e.blob.id, 0, 1), detBytes("s", 64), detBytes("p", 33), []byte{}}
		}},
		"container.startContainerEstimation/1": {req: reqAlphabet, args: same(int64(2))},
		"container.stopContainerEstimation/1":  {req: reqAlphabet, args: same(int64(2))},
		"container.submitObjectPut/2": {req: reqNone, args: func(e *c03Env) []any {
			sw := &sigWorld{cntWorld: e.cw, blob: e.blob}
			msg := sw.metaInfo(1)
			return []any{msg, []any{[]any{e.sigKeys[0].Sign(msg)}}}
		}},
		"container.update/3": upd("container"),
		// ---- neofs (main chain, Notary mode)
		"neofs.alphabetUpdate/2":           {req: reqAlphabet, args: func(e *c03Env) []any { return []any{[]byte("id"), []any{e.c.Pubs[0].Bytes()}} }},
		"neofs.bind/2":                     {req: reqKey, args: func(e *c03Env) []any { return []any{e.u0.ScriptHash(), []any{pub(e.u0)}} }, key: u0},
		"neofs.unbind/2":                   {req: reqKey, args: func(e *c03Env) []any { return []any{e.u0.ScriptHash(), []any{pub(e.u0)}} }, key: u0},
		"neofs.cheque/4":                   {req: reqAlphabet, args: func(e *c03Env) []any { return []any{[]byte("id"), e.u0.ScriptHash(), int64(7), []byte("lock")} }},
		"neofs.innerRingCandidateAdd/1":    {req: reqKey, args: func(e *c03Env) []any { return []any{pub(e.cand)} }, key: func(e *c03Env) neotest.Signer { return e.cand }},
		"neofs.innerRingCandidateRemove/1": {req: reqKeyOrAlph, args: func(e *c03Env) []any { return []any{pub(e.cand)} }, key: func(e *c03Env) neotest.Signer { return e.cand }},
		"neofs.onNEP17Payment/3":           {req: reqCallback, args: func(e *c03Env) []any { return []any{e.u0.ScriptHash(), int64(5), e.u0.ScriptHash().BytesBE()} }},
		"neofs.setConfig/3":                {req: reqAlphabet, args: same([]byte("id"), []byte("k"), []byte("v"))},
		"neofs.withdraw/2":                 {req: reqKey, args: func(e *c03Env) []any { return []any{e.u0.ScriptHash(), int64(3)} }, key: u0},
		"neofs.update/3":                   {req: reqRole, args: func(e *c03Env) []any { return updateArgs("neofs", bumped("neofs"), nil) }},
		// ---- neofsid
		"neofsid.addKey/2":    {req: reqAlphabet, args: func(e *c03Env) []any { return []any{ownerID(e.u1.ScriptHash()), []any{pub(e.u1)}} }},
		"neofsid.removeKey/2": {req: reqAlphabet, args: func(e *c03Env) []any { return []any{ownerID(e.u0.ScriptHash()), []any{pub(e.u0)}} }},
		"neofsid.update/3":    upd("neofsid"),
		// ---- netmap
		"netmap.addNode/1":              {req: reqKeyAlpha, args: func(e *c03Env) []any { return []any{node2Item(pub(e.node), 1, 1)} }, key: node},
		"netmap.addPeer/1":              {req: reqKeyAlpha, args: func(e *c03Env) []any { return []any{legacyInfo(pub(e.node), 5)} }, key: node},
		"netmap.addPeerIR/1":            {req: reqAlphabet, args: func(e *c03Env) []any { return []any{legacyInfo(pub(e.u1), 5)} }},
		"netmap.deleteNode/1":           {req: reqAlphabet, args: func(e *c03Env) []any { return []any{pub(e.node)} }},
		"netmap.lastEpochBlock/0":       {req: reqNone, args: same()},
		"netmap.newEpoch/1":             {req: reqAlphabet, args: same(int64(3))},
		"netmap.setConfig/3":            {req: reqAlphabet, args: same([]byte("id"), []byte("k"), []byte("v"))},
		"netmap.subscribeForNewEpoch/1": {req: reqAlphabet, args: func(e *c03Env) []any { return []any{e.h["probe"]} }},
		"netmap.update/3":               upd("netmap"),
		"netmap.updateSnapshotCount/1":  {req: reqAlphabet, args: same(int64(5))},
		"netmap.updateState/2":          {req: reqKeyAlpha, args: func(e *c03Env) []any { return []any{int64(3), pub(e.node)} }, key: node},
		"netmap.updateStateIR/2":        {req: reqAlphabet, args: func(e *c03Env) []any { return []any{int64(3), pub(e.node)} }},
		// ---- nns
		"nns.addRecord/3":     {req: reqKey, args: func(e *c03Env) []any { return []any{"c03.neofs", recTXT, fmt.Sprintf("more-%d", e.seq)} }, key: u0, delegate: u1, delegateAllowed: true},
		"nns.deleteRecords/2": {req: reqKey, args: same("c03.neofs", recTXT), key: u0, delegate: u1, delegateAllowed: true},
		"nns.register/7": {req: reqKey, args: func(e *c03Env) []any {
			return []any{"new.neofs", e.u1.ScriptHash(), "m@nspcc.io", int64(1), int64(2), int64(1000), int64(3)}
		}, key: u1},
		"nns.registerTLD/6": {req: reqCommittee, args: same("newtld", "m@nspcc.io", int64(1), int64(2), int64(1000), int64(3))},
		"nns.renew/2":       {req: reqKey, args: same("c03.neofs", int64(1)), key: u0, delegate: u1, delegateAllowed: true},
		"nns.renew/1":       {req: reqKey, args: same("c03.neofs"), key: u0, delegate: u1, delegateAllowed: true},
		"nns.setAdmin/2":    {req: reqTwoKeys, args: func(e *c03Env) []any { return []any{"c03.neofs", e.u2.ScriptHash()} }, key: u0, key2: func(e *c03Env) neotest.Signer { return e.u2 }, delegate: u1},
		"nns.setPrice/1":    {req: reqCommittee, args: same(int64(5))},
		"nns.setRecord/4":   {req: reqKey, args: same("c03.neofs", recTXT, int64(0), "replaced"), key: u0, delegate: u1, delegateAllowed: true},
		"nns.transfer/3":    {req: reqKey, args: func(e *c03Env) []any { return []any{e.u2.ScriptHash(), []byte("c03.neofs"), nil} }, key: u0, falsey: true, delegate: u1},
		"nns.update/3":      upd("nns"),
		"nns.updateSOA/6":   {req: reqKey, args: same("c03.neofs", "n@nspcc.io", int64(2), int64(3), int64(4), int64(5)), key: u0, delegate: u1, delegateAllowed: true},
		// ---- processing / proxy
		"processing.onNEP17Payment/3": {req: reqCallback, args: func(e *c03Env) []any { return []any{e.u0.ScriptHash(), int64(5), nil} }},
		"processing.update/3":         {req: reqRole, args: func(e *c03Env) []any { return updateArgs("processing", bumped("processing"), nil) }},
		"proxy.onNEP17Payment/3":      {req: reqCallback, args: func(e *c03Env) []any { return []any{e.u0.ScriptHash(), int64(5), nil} }},
		"proxy.update/3":              upd("proxy"),
		// ---- reputation
		"reputation.put/3":     {req: reqAlphabet, args: func(e *c03Env) []any { return []any{int64(2), pub(e.node), []byte("trust")} }},
		"reputation.update/3":  upd("reputation"),
		"reputation.version/0": {req: reqNone, args: same()},
	}
	for k, r := range t {
		if strings.HasPrefix(k, "alphabet.") {
			r.target = "alphabet0"
			t[k] = r
		}
	}
	return t
}

// c03Variants: further situations of a method in which the documented witness is another one than in the table's
// main row (deeper levels of a hierarchy, an object that belongs to somebody else). Each is run on a world of its own.
func c03Variants() map[string][]c03Row {
	S := func(s ...neotest.Signer) []neotest.Signer { return s }
	reg := func(name string, owner func(e *c03Env) util.Uint160) func(e *c03Env) []any {
		return func(e *c03Env) []any {
			return []any{fmt.Sprintf(name, e.seq), owner(e), "m@nspcc.io", int64(1), int64(2), int64(1000), int64(3)}
		}
	}
	hu0 := func(e *c03Env) util.Uint160 { return e.u0.ScriptHash() }
	hu1 := func(e *c03Env) util.Uint160 { return e.u1.ScriptHash() }
	hu2 := func(e *c03Env) util.Uint160 { return e.u2.ScriptHash() }
	hst := func(e *c03Env) util.Uint160 { return e.strng.ScriptHash() }
	return map[string][]c03Row{
		"nns.register/7": {
			{variant: "third level: the new owner and the owner or admin of the enclosing second-level name", req: reqCustom,
				args: reg("l3-%d.c03.neofs", hu2),
				custom: func(e *c03Env) []c03Class {
					return []c03Class{
						{"a stranger registering for itself", S(e.strng), false},
						{"the new owner alone", S(e.u2), false},
						{"the parent's owner without the new owner", S(e.u0), false},
						{"the new owner and the committee majority", S(e.u2, e.c.Committee), false},
						{"the new owner and the Alphabet", S(e.u2, e.c.Alphabet), false},
						{"the new owner and the parent's owner", S(e.u2, e.u0), true},
						{"the new owner and the parent's admin", S(e.u2, e.u1), true},
					}
				},
				classArgs: map[string]func(e *c03Env) []any{"a stranger registering for itself": reg("l3-%d.c03.neofs", hst)}},
			{variant: "fourth level below a third-level name of another owner: only the directly enclosing name's owner counts", req: reqCustom,
				args: reg("l4-%d.sub.c03.neofs", hu2),
				custom: func(e *c03Env) []c03Class {
					return []c03Class{
						{"a stranger registering for itself", S(e.strng), false},
						{"the second-level owner registering for itself (owns the zone, not the enclosing name)", S(e.u0), false},
						{"the second-level admin registering for itself", S(e.u1), false},
						{"the second-level owner and admin together", S(e.u0, e.u1), false},
						{"the committee majority and the Alphabet registering for the second-level owner", S(e.u0, e.c.Committee, e.c.Alphabet), false},
						{"the owner of the enclosing third-level name, for itself", S(e.u2), true},
						{"the owner of the enclosing third-level name and a new owner", S(e.u2, e.u1), true},
					}
				},
				classArgs: map[string]func(e *c03Env) []any{
					"a stranger registering for itself":                                                     reg("l4-%d.sub.c03.neofs", hst),
					"the second-level owner registering for itself (owns the zone, not the enclosing name)": reg("l4-%d.sub.c03.neofs", hu0),
					"the second-level admin registering for itself":                                         reg("l4-%d.sub.c03.neofs", hu1),
					"the second-level owner and admin together":                                             reg("l4-%d.sub.c03.neofs", hu0),
					"the committee majority and the Alphabet registering for the second-level owner":        reg("l4-%d.sub.c03.neofs", hu0),
					"the owner of the enclosing third-level name and a new owner":                           reg("l4-%d.sub.c03.neofs", hu1),
				}},
		},
	}
}

type c03Class struct {
	name    string
	signers []neotest.Signer
	allowed bool
}

// classes builds the signer classes for a requirement on this chain.
func (e *c03Env) classes(r c03Row) []c03Class {
	c := e.c
	alpha, major := neotest.Signer(c.Alphabet), neotest.Signer(c.Committee)
	same := alpha.ScriptHash() == major.ScriptHash()
	member := neotest.Signer(c.Member(c.N - 1))
	var key, key2 neotest.Signer
	if r.key != nil {
		key = r.key(e)
	}
	if r.key2 != nil {
		key2 = r.key2(e)
	}
	S := func(s ...neotest.Signer) []neotest.Signer { return s }
	switch r.req {
	case reqCustom:
		return r.custom(e)
	case reqAlphabet:
		cl := []c03Class{{"nobody relevant (a stranger)", S(e.strng), false}, {"a single Alphabet member", S(member), false}}
		if !same {
			cl = append(cl, c03Class{"the committee majority instead of the Alphabet", S(major), false})
		}
		if m := chainkit.AlphabetThreshold(c.N) - 1; m >= 1 && m != chainkit.MajorityThreshold(c.N) {
			cl = append(cl, c03Class{fmt.Sprintf("one signature short of the Alphabet threshold (%d of %d)", m, c.N), S(c.MultisigOf(m)), false})
		}
		if vh := c.Validators.ScriptHash(); vh != alpha.ScriptHash() && vh != major.ScriptHash() && c.FormerAlphabet == nil {
			cl = append(cl, c03Class{"the consensus nodes' multisignature (fewer validators than committee members)", S(c.Validators), false})
		}
		if c.FormerAlphabet != nil {
			cl = append(cl, c03Class{"the Alphabet account of the committee that was voted out", S(c.FormerAlphabet), false},
				c03Class{"the majority account of the committee that was voted out", S(c.FormerCommittee), false})
		}
		return append(cl, c03Class{"the Alphabet multisignature", S(alpha), true})
	case reqCommittee:
		cl := []c03Class{{"nobody relevant (a stranger)", S(e.strng), false}, {"a single committee member", S(member), false}}
		if !same {
			cl = append(cl, c03Class{"the Alphabet 2n/3+1 multisignature instead of the majority", S(alpha), false})
		}
		if m := c.N / 2; m >= 1 {
			cl = append(cl, c03Class{fmt.Sprintf("one signature short of the majority (%d of %d)", m, c.N), S(c.MultisigOf(m)), false})
		}
		if vh := c.Validators.ScriptHash(); vh != alpha.ScriptHash() && vh != major.ScriptHash() && c.FormerAlphabet == nil {
			cl = append(cl, c03Class{"the consensus nodes' multisignature (fewer validators than committee members)", S(c.Validators), false})
		}
		if c.FormerAlphabet != nil {
			cl = append(cl, c03Class{"the Alphabet account of the committee that was voted out", S(c.FormerAlphabet), false},
				c03Class{"the majority account of the committee that was voted out", S(c.FormerCommittee), false})
		}
		return append(cl, c03Class{"the committee majority", S(major), true})
	case reqKeyAlpha:
		cl := []c03Class{{"nobody relevant (a stranger)", S(e.strng), false}, {"the named key without the Alphabet", S(key), false}, {"the Alphabet without the named key", S(alpha), false}, {"the named key and a single Alphabet member", S(key, member), false}}
		if !same {
			cl = append(cl, c03Class{"the named key and the committee majority", S(key, major), false})
		}
		if c.FormerAlphabet != nil {
			cl = append(cl, c03Class{"the named key and the Alphabet account of the committee that was voted out", S(key, c.FormerAlphabet), false})
		}
		return append(cl, c03Class{"the named key and the Alphabet", S(key, alpha), true})
	case reqKey:
		cl := []c03Class{{"nobody relevant (a stranger)", S(e.strng), false}, {"the Alphabet without the named key", S(alpha), false}, {"the committee majority without the named key", S(major), false}}
		if r.delegate != nil && !r.delegateAllowed {
			cl = append(cl, c03Class{"the delegated admin without the owner", S(r.delegate(e)), false})
		}
		if r.also != nil {
			cl = append(cl, r.also(e)...)
		}
		cl = append(cl, c03Class{"the named key", S(key), true})
		if r.delegate != nil && r.delegateAllowed {
			cl = append(cl, c03Class{"the delegated admin (documented alternative to the owner)", S(r.delegate(e)), true})
		}
		return cl
	case reqTwoKeys:
		cl := []c03Class{{"nobody relevant (a stranger)", S(e.strng), false}, {"the owner alone", S(key), false}, {"the new admin alone", S(key2), false}, {"the Alphabet and the new admin", S(alpha, key2), false}}
		if r.delegate != nil {
			cl = append(cl, c03Class{"the current admin and the new admin, without the owner", S(r.delegate(e), key2), false})
		}
		return append(cl, c03Class{"owner and new admin", S(key, key2), true})
	case reqKeyOrAlph:
		cl := []c03Class{{"nobody relevant (a stranger)", S(e.strng), false}, {"a single Alphabet member", S(member), false}}
		if !same {
			cl = append(cl, c03Class{"the committee majority", S(major), false})
		}
		if c.FormerAlphabet != nil {
			cl = append(cl, c03Class{"the Alphabet account of the committee that was voted out", S(c.FormerAlphabet), false})
		}
		return append(cl, c03Class{"the named key", S(key), true})
	case reqRole:
		return []c03Class{{"nobody relevant (a stranger)", S(e.strng), false}, {"the chain's committee majority", S(major), false}, {"the chain's Alphabet multisignature", S(alpha), false},
			{"one key of the NeoFSAlphabet role", S(neotest.NewSingleSigner(walletOf(e.ir[0]))), false}, {"2 of 4 role keys", S(chainkit.Multisig(2, e.ir)), false}, {"majority of the NeoFSAlphabet role", S(chainkit.Multisig(3, e.ir)), true}}
	case reqNone:
		return []c03Class{{"a stranger", S(e.strng), true}}
	case reqCallback:
		return []c03Class{{"a stranger", S(e.strng), false}, {"the Alphabet multisignature", S(alpha), false}, {"the committee majority", S(major), false}}
	}
	return nil
}

// watchNoFee is the watch list without the accounts that pay the fees of the scoped transaction.
func (e *c03Env) watchNoFee(ss []chainkit.ScopedSigner) []util.Uint160 {
	var out []util.Uint160
	for _, a := range e.watch {
		payer := false
		for _, s := range ss {
			if s.S.ScriptHash() == a {
				payer = true
			}
		}
		if !payer {
			out = append(out, a)
		}
	}
	return out
}

var fsContractEvents = true

// inert checks that nothing changed and nothing was notified.
func (e *c03Env) inert(what string, pre chainkit.Snapshot, o *chainkit.Outcome) {
	if d := chainkit.Diff(pre, e.c.Snapshot(e.watch...)); len(d) != 0 {
		fail("C03: %s changed state: %v", what, d)
	}
	if o.Halt {
		known := map[util.Uint160]bool{}
		for _, h := range e.h {
			known[h] = true
		}
		for _, ev := range o.Events {
			if known[ev.ScriptHash] {
				fail("C03: %s emitted %s", what, ev.Name)
			}
		}
	}
}

func TestC03Matrix(t *testing.T) {
	theT = t
	defer removeBumped()
	grp, desc := "matrix", "the method list is read from the manifests compiled from the working tree (11 contracts); for every non-safe method x committee size {1,3,4,7} (4: an even size, where half of the keys is not a majority) a fresh fully deployed and prepared world is built and every signer class of the method's documented requirement is tried in turn (nobody relevant, a single Alphabet member, the committee majority where the Alphabet is required and vice versa, the named key without the Alphabet, the Alphabet without the named key, ...): each deficient class must FAULT (or answer false) and leave the full snapshot of all contracts, GAS/NEO balances and notifications untouched, the exactly-required class must succeed; on committees of 1 and 4 keys additionally: the required signers present only as fee payers (witness scope None) while a stranger makes the call, in both signer orders - refused and inert; methods whose name starts with '_' must not be callable; every safe method is committed with plausible arguments and must leave the snapshot untouched; verify of Proxy/Alphabet/Processing is evaluated for every signer class; methods and classes are enumerated completely, arguments are one valid tuple per method here (groups arg-sweep and args vary them); a manifest method without a table row is reported as uncovered (not an alarm)"
	if os.Getenv("VERIF_C03_REELECT") != "" {
		grp, desc = "re-election", "the matrix world on committees of 1 and 3 keys, but after the world has been deployed and prepared by the original committee the whole committee is voted out (fresh candidates, 30 % of NEO in votes, blocks until getCommittee answers with the new keys); then for every method gated by the Alphabet or the committee (alone, with a named key, or as the alternative to one): the usual deficient classes built from the new committee, plus the Alphabet and majority accounts of the committee that was voted out (refused and inert), and the new committee's account (must succeed)"
	}
	col := ev.New("C03", grp, desc,
		"the witness requirement table is hand-written from the contracts' documentation")
	defer func() { col.Flush(true) }()
	nshards, shard := envInt("VERIF_NSHARDS", 1), envInt("VERIF_SHARD_INDEX", 0)
	table := c03Table()
	// the method universe: manifests of the working tree
	type meth struct {
		contract string
		m        manifest.Method
	}
	var universe []meth
	for _, name := range allContracts {
		cc := chainkit.Contract(name)
		var m manifest.Manifest
		if err := json.Unmarshal(cc.ManBytes, &m); err != nil {
			t.Fatal(err)
		}
		for _, md := range m.ABI.Methods {
			universe = append(universe, meth{name, md})
		}
	}
	sort.Slice(universe, func(i, j int) bool {
		a, b := universe[i], universe[j]
		return a.contract+"."+a.m.Name+fmt.Sprint(len(a.m.Parameters)) < b.contract+"."+b.m.Name+fmt.Sprint(len(b.m.Parameters))
	})
	uncovered := []string{}
	idx := 0
	reelect := os.Getenv("VERIF_C03_REELECT") != ""
	for _, n := range envInts("VERIF_C03_N", []int{1, 3, 4, 7}) {
		for _, u := range universe {
			key := fmt.Sprintf("%s.%s/%d", u.contract, u.m.Name, len(u.m.Parameters))
			idx++
			if idx%nshards != shard {
				continue
			}
			if reelect && (u.m.Safe || strings.HasPrefix(u.m.Name, "_")) {
				continue
			}
			if reelect && (u.contract == "neofs" || u.contract == "processing") {
				// main-chain contracts: their Alphabet is the key list stored in the NeoFS contract (changed by alphabetUpdate
				// only, see C17), not the chain's committee - a re-election does not concern them
				continue
			}
			h := ev.NewHistory()
			h.Op("n=%d %s safe=%v", n, key, u.m.Safe)
			ok := runCase(t, col, h, func() {
				if strings.HasPrefix(u.m.Name, "_") {
					e := newC03Env(n)
					defer e.c.Close()
					target := e.h[u.contract]
					if u.contract == "alphabet" {
						target = e.h["alphabet0"]
					}
					args := make([]any, len(u.m.Parameters))
					for i := range args {
						args[i] = nil
					}
					pre := e.c.Snapshot(e.watch...)
					o := e.c.Invoke([]neotest.Signer{e.c.Alphabet, e.c.Committee}, target, u.m.Name, args...)
					h.Op("direct call of %s by Alphabet+committee -> %s", key, o)
					if o.Halt {
						fail("C03: internal method %s is callable from outside", key)
					}
					e.inert("a direct call of "+key, pre, o)
					h.Mark("internal")
					h.NonTrivial()
					return
				}
				if u.m.Safe {
					c03Safe(h, n, u.contract, u.m)
					h.NonTrivial()
					return
				}
				row, ok := table[key]
				if !ok {
					if n == 1 {
						uncovered = append(uncovered, key)
					}
					h.Mark("uncovered")
					return
				}
				if reelect && row.req != reqAlphabet && row.req != reqCommittee && row.req != reqKeyAlpha && row.req != reqKeyOrAlph {
					h.Mark("not-alphabet-gated")
					return
				}
				for vi, row := range append([]c03Row{row}, c03Variants()[key]...) {
					if vi > 0 && reelect {
						break
					}
					func() {
						if row.variant != "" {
							h.Op("variant: %s", row.variant)
							h.Mark("variant")
						}
						e := newC03Env(n)
						defer e.c.Close()
						e.h["probe"] = e.c.Deploy(chainkit.Probe("subscriber", "verif subscriber 0"), nil)
						if reelect {
							// the whole committee is voted out after the world has been prepared (and every contract has seen calls
							// by the old Alphabet): from now on the old accounts are nobody, the new ones are the Alphabet
							e.c.Reelect("c03")
							h.Op("committee re-elected")
							h.Mark("committee-re-elected")
						}
						target := e.h[u.contract]
						if row.target != "" {
							target = e.h[row.target]
						}
						args := row.args(e)
						if len(args) != len(u.m.Parameters) {
							panic(chainkit.HarnessError{Msg: "c03: table row " + key + " has the wrong arity"})
						}
						for _, cl := range e.classes(row) {
							e.seq++
							args = row.args(e)
							if f := row.classArgs[cl.name]; f != nil {
								args = f(e)
							}
							pre := e.c.Snapshot(e.watch...)
							o := e.c.Invoke(cl.signers, target, u.m.Name, args...)
							what := fmt.Sprintf("%s%s (n=%d) invoked by %s", key, shortArgs(args), n, cl.name)
							h.Op("%s -> %s", what, o)
							if !cl.allowed {
								refused := !o.Halt
								if row.falsey && o.Halt {
									if b, isb := o.Bool(); isb && !b {
										refused = true
									}
								}
								if !refused {
									fail("C03: %s succeeded without the required witnesses (%s): %s", what, row.req, o)
								}
								e.inert(what, pre, o)
								h.Mark("refused")
								h.NonTrivial()
								continue
							}
							okk := o.Halt
							if row.falsey {
								b, isb := o.Bool()
								okk = o.Halt && isb && b
							}
							if !okk {
								fail("C03: %s carries exactly the required witnesses (%s) but did not succeed: %s", what, row.req, o)
							}
							h.Mark("succeeded")
						}
						// the required signers are on the transaction, but only to pay for it (witness scope None), and a
						// stranger makes the call: their witnesses do not cover the contract - a deficient set like any other.
						// (Run on a fresh world, because the allowed class above has already changed this one.)
						if row.req != reqNone && row.req != reqCallback && (n == 1 || n == 4) && !reelect {
							e2 := newC03Env(n)
							defer e2.c.Close()
							e2.h["probe"] = e2.c.Deploy(chainkit.Probe("subscriber", "verif subscriber 0"), nil)
							target2 := e2.h[u.contract]
							if row.target != "" {
								target2 = e2.h[row.target]
							}
							var allowed c03Class
							for _, cl := range e2.classes(row) {
								if cl.allowed {
									allowed = cl
									break
								}
							}
							for _, order := range []string{"payers first", "stranger first"} {
								var ss []chainkit.ScopedSigner
								for _, sg := range allowed.signers {
									e2.c.FundGAS(sg.ScriptHash(), 500*gasUnit)
									ss = append(ss, chainkit.ScopedSigner{S: sg, Scope: transaction.None})
								}
								e2.c.FundGAS(e2.strng.ScriptHash(), 500*gasUnit)
								st := chainkit.ScopedSigner{S: e2.strng, Scope: transaction.Global}
								if order == "payers first" {
									ss = append(ss, st)
								} else {
									ss = append([]chainkit.ScopedSigner{st}, ss...)
								}
								e2.seq++
								args2 := row.args(e2)
								e2.watch = append(e2.watch, allowed.signers[0].ScriptHash())
								tx := e2.c.PrepareScoped(chainkit.Script(target2, u.m.Name, args2...), ss)
								pre := e2.c.Snapshot(e2.watchNoFee(ss)...)
								o := e2.c.InvokeBlock(0, tx)[0]
								what := fmt.Sprintf("%s (n=%d) invoked by a stranger while %s only pay(s) the fees with witness scope None (%s)", key, n, allowed.name, order)
								h.Op("%s -> %s", what, o)
								refused := !o.Halt
								if row.falsey && o.Halt {
									if b, isb := o.Bool(); isb && !b {
										refused = true
									}
								}
								if !refused {
									fail("C03: %s succeeded: %s", what, o)
								}
								if d := chainkit.Diff(pre, e2.c.Snapshot(e2.watchNoFee(ss)...)); len(d) != 0 {
									fail("C03: %s changed state: %v", what, d)
								}
								h.Mark("refused-scope-none")
							}
						}
					}()
				}
			})
			if !ok {
				return
			}
		}
	}
	col.Extra("uncovered_methods", uncovered)
	col.Extra("abi_methods", len(universe))
	col.SetExhaustive(true)
}

// TestC03Rotation: where the required witness is defined by the NeoFSAlphabet role, the list in force in the
// block of the invocation decides - the dismissed keys are "nobody relevant" from the first block on.
func TestC03Rotation(t *testing.T) {
	theT = t
	defer removeBumped()
	col := ev.New("C03", "rotation",
		"complete enumeration: methods whose required witness is defined by the NeoFSAlphabet role {audit.put, neofs.update, processing.update} x blocks between the re-designation of the role (4 keys -> 4 other keys) and the invocation {0, 1} x {dismissed keys first, new keys only}: the dismissed keys (single key for audit.put, 3-of-4 for update) must be refused and leave the full snapshot untouched, the new keys must succeed; non-trivial = every case")
	defer func() { col.Flush(true) }()
	nshards, shard := envInt("VERIF_NSHARDS", 1), envInt("VERIF_SHARD_INDEX", 0)
	idx := 0
	for _, key := range []string{"audit.put/1", "neofs.update/3", "processing.update/3"} {
		for _, delay := range []int{0, 1} {
			for _, oldFirst := range []bool{true, false} {
				idx++
				if idx%nshards != shard {
					continue
				}
				h := ev.NewHistory()
				h.Op("%s, %d block(s) after the re-designation, dismissed keys first=%v", key, delay, oldFirst)
				if !runCase(t, col, h, func() {
					e := newC03Env(1)
					defer e.c.Close()
					var nk []*keys.PrivateKey
					var npubs keys.PublicKeys
					for i := 0; i < 4; i++ {
						k := chainkit.DetKey(fmt.Sprintf("c03-ir-new-%d", i))
						nk = append(nk, k)
						npubs = append(npubs, k.PublicKey())
						e.watch = append(e.watch, k.PublicKey().GetScriptHash())
					}
					contract := key[:strings.Index(key, ".")]
					method := key[strings.Index(key, ".")+1 : strings.Index(key, "/")]
					target := e.h[contract]
					e.c.DesignateAlphabet(npubs)
					e.c.Skip(delay)
					try := func(who string, ks []*keys.PrivateKey, allowed bool) {
						var signers []neotest.Signer
						var args []any
						if contract == "audit" {
							signers = []neotest.Signer{neotest.NewSingleSigner(walletOf(ks[0]))}
							args = []any{auditBlob(0, 3, detBytes("cid", 32), ks[0].PublicKey().Bytes(), 1)}
						} else {
							signers = []neotest.Signer{chainkit.Multisig(3, ks)}
							args = updateArgs(contract, bumped(contract), nil)
						}
						pre := e.c.Snapshot(e.watch...)
						o := e.c.Invoke(signers, target, method, args...)
						what := fmt.Sprintf("%s by %s, right after the role was re-designated", key, who)
						h.Op("%s -> %s", what, o)
						if allowed != o.Halt {
							fail("C03: %s: expected success=%v, got %s", what, allowed, o)
						}
						if !allowed {
							e.inert(what, pre, o)
						}
					}
					if oldFirst {
						try("the dismissed role keys", e.ir, false)
					}
					try("the new role keys", nk, true)
					h.NonTrivial()
				}) {
					return
				}
			}
		}
	}
	col.SetExhaustive(true)
}

// c03Safe commits a safe method with plausible arguments and demands an empty diff.
func c03Safe(h *ev.History, n int, contract string, m manifest.Method) {
	e := newC03Env(n)
	defer e.c.Close()
	target := e.h[contract]
	if contract == "alphabet" {
		target = e.h["alphabet0"]
	}
	argSets := [][]any{make([]any, len(m.Parameters)), make([]any, len(m.Parameters))}
	for i, p := range m.Parameters {
		var a, b any
		switch p.Type.String() {
		case "Integer":
			a, b = int64(1), int64(0)
		case "Boolean":
			a, b = true, false
		case "String":
			a, b = "c03.neofs", "neofs"
		case "Hash160":
			a, b = e.u0.ScriptHash(), e.h["container"]
		case "Hash256":
			a, b = e.blob.id, detBytes("none", 32)
		case "PublicKey":
			a, b = e.node.Account().PublicKey().Bytes(), e.c.Pubs[0].Bytes()
		case "Array":
			a, b = []any{[]any{e.sigKeys[0].Sign([]byte("m"))}}, []any{}
		default: // ByteArray, Any, ...
			a, b = e.blob.id, ownerID(e.u0.ScriptHash())
		}
		argSets[0][i], argSets[1][i] = a, b
	}
	for _, signers := range [][]neotest.Signer{{e.strng}, {e.c.Alphabet, e.c.Committee}} {
		for _, args := range argSets {
			pre := e.c.Snapshot(e.watch...)
			o := e.c.Invoke(signers, target, m.Name, args...)
			h.Op("safe %s.%s%v -> %s", contract, m.Name, shortArgs(args), o)
			e.inert(fmt.Sprintf("safe method %s.%s", contract, m.Name), pre, o)
		}
	}
	if m.Name == "verify" {
		c03Verify(h, e, contract, target)
	}
}

// c03Verify: verify accepts only Alphabet multisignatures.
func c03Verify(h *ev.History, e *c03Env, contract string, target util.Uint160) {
	c := e.c
	for _, cl := range []struct {
		name    string
		signers []neotest.Signer
		alpha   bool
		major   bool
	}{
		{"a stranger", []neotest.Signer{e.strng}, false, false},
		{"a single member", []neotest.Signer{c.Member(0)}, false, false},
		{"the Alphabet 2n/3+1 multisignature", []neotest.Signer{c.Alphabet}, true, c.Alphabet.ScriptHash() == c.Committee.ScriptHash()},
		{"the committee majority", []neotest.Signer{c.Committee}, c.Alphabet.ScriptHash() == c.Committee.ScriptHash(), true},
		{"the NeoFSAlphabet role majority", []neotest.Signer{chainkit.Multisig(3, e.ir)}, false, false},
		{"half of the committee keys (n/2 of n; a single member when n = 1)", []neotest.Signer{c.MultisigOf(max(c.N/2, 1))}, c.N == 1, c.N == 1},
	} {
		o := c.Call(cl.signers, target, "verify")
		got, ok := o.Bool()
		want := cl.alpha
		if contract == "proxy" || contract == "alphabet" {
			want = cl.alpha || cl.major
		}
		if !o.Halt || !ok || got != want {
			fail("C03: %s.verify with %s = %s, expected %v", contract, cl.name, o, want)
		}
		h.Op("%s.verify with %s -> %v", contract, cl.name, got)
	}
}

var _ = stackitem.Make
