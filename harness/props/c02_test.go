package props

import (
	"encoding/json"
	"fmt"
	"math/big"
	"sort"
	"strings"
	"testing"

	"github.com/nspcc-dev/neo-go/pkg/smartcontract/manifest"
	"github.com/nspcc-dev/neo-go/pkg/util"
	"verif/harness/chainkit"

	"github.com/nspcc-dev/neo-go/pkg/neotest"
	"pgregory.net/rapid"

	"verif/harness/ev"
)

func TestC02Stateful(t *testing.T) {
	theT = t
	col := ev.New("C02", "stateful",
		"rapid state machine (same generator as C01, weighted towards the public transfer) on committees of 1 and 3, in one case of three with fewer consensus nodes than committee members (their multisignature is one more signer that is not the Alphabet), with a re-election of the whole committee by NEO votes somewhere in the history (afterwards one Alphabet-only call in four is signed by the former Alphabet account); per transaction: every account whose balance fell witnessed the transaction, is the calling contract, or the Alphabet signed; non-trivial = history containing a non-zero transfer attempt whose signer set is not exactly {from}",
		"Alphabet-only methods receive well-formed 20-byte addresses", "lock targets are fresh addresses")
	runRapid(t, col, func(rt *rapid.T, h *ev.History) {
		n := rapid.SampledFrom([]int{1, 3}).Draw(rt, "n")
		drawValidators(rt, h, n)
		w := newBalWorld(n, h)
		defer w.close()
		w.c02 = true
		h.Op("committee n=%d", n)
		// the initial funding carries every authority of the chain (Alphabet, committee and - where they differ - the
		// consensus nodes), so that there is something to debit even on a tree that mistakes one for another
		for i, u := range w.users {
			op := &balOp{kind: "mint", amount: bi(int64(50 * (i + 1))), signers: w.c.Both(), desc: fmt.Sprintf("mint(a%d,%d)", i+1, 50*(i+1))}
			w.do(op, w.bal, "mint", u.ScriptHash(), op.amount, []byte("init"))
		}
		w.do(&balOp{kind: "mint", amount: bi(77), signers: w.c.Both(), desc: "mint(actor,77)"}, w.bal, "mint", w.actor, bi(77), []byte("init"))
		kinds := []string{"transfer", "transfer", "transfer", "transfer", "transfer", "transferX", "transferX", "mint", "mint", "burn", "burn", "lock", "newEpoch", "tick", "reelect"}
		steps := rapid.IntRange(1, 25).Draw(rt, "steps")
		for i := 0; i < steps; i++ {
			w.balStep(rt, kinds)
		}
		if h.Has("debit-attempt-signers-not-exactly-from") {
			h.NonTrivial()
		}
	})
}

// TestC02Matrix enumerates single public transfers completely over
// amount class x signer subset x from x to x {direct, via contract}.
func TestC02Matrix(t *testing.T) {
	theT = t
	col := ev.New("C02", "matrix",
		"complete enumeration of single transfer calls: 11 amount classes x every subset of the signer pool x (from,to) in population^2 (3 users, contract account, the Balance contract's own address, empty account, the Null item) x {entry script, via contract}; every case is a distinct non-trivial debit attempt unless signers = {from}",
		"state evolves between cases and is re-funded when an account runs dry (the oracle is per transaction and state independent)")
	defer func() { col.Flush(true) }()
	ns := []int{1}
	if ev.Thorough() {
		ns = []int{1, 3}
	}
	total := 0
	for _, n := range ns {
		hh := ev.NewHistory()
		w := newBalWorld(n, hh)
		pop := w.addrPool(w.state())
		pop = append(pop, nil) // the Null item (passed as Null, not as an empty byte string)
		signerPool := w.signerPool()
		classes := []string{"neg1", "negBig", "zero", "one", "eq", "eq-1", "eq+1", "over", "2^63", "2^255-1", "-2^63"}
		refund := func() {
			st := w.state()
			for _, a := range pop[:5] {
				if st.bal(a).Cmp(bi(20)) < 0 {
					w.c.Invoke([]neotest.Signer{w.c.Alphabet}, w.bal, "mint", a, bi(100), []byte("refund"))
				}
			}
		}
		for _, cls := range classes {
			for mask := 0; mask < 1<<len(signerPool); mask++ {
				var signers []neotest.Signer
				for i := range signerPool {
					if mask&(1<<i) != 0 {
						signers = append(signers, signerPool[i])
					}
				}
				for _, from := range pop {
					for _, to := range pop {
						for _, via := range []bool{false, true} {
							refund()
							h := ev.NewHistory()
							w.h = h
							b := w.state().bal(from)
							amt := classAmount(cls, b)
							op := &balOp{kind: "transfer", amount: amt, signers: signers, viaActor: via}
							op.desc = fmt.Sprintf("n=%d transfer(%s->%s,%v[%s]) signers=%s via=%v", n, w.name(from), w.name(to), amt, cls, sig(signers, w.names), via)
							ok := runCase(t, col, h, func() {
								var fromArg, toArg any = from, to
								if from == nil {
									fromArg = nil
								}
								if to == nil {
									toArg = nil
								}
								p1, p2, out := w.do(op, w.bal, "transfer", fromArg, toArg, amt, nil)
								w.checkC02(p1, p2, out, op)
								h.NonTrivial()
								if b, isb := out.Bool(); out.Halt && isb && b {
									h.Mark("accepted")
								} else {
									h.Mark("refused")
								}
							})
							total++
							if !ok {
								w.close()
								return
							}
						}
					}
				}
			}
		}
		w.close()
	}
	col.SetExhaustive(true)
	col.Extra("matrix_cases", total)
}

func classAmount(c string, b *big.Int) *big.Int {
	switch c {
	case "neg1":
		return bi(-1)
	case "negBig":
		return new(big.Int).Neg(new(big.Int).Add(b, bi(7)))
	case "zero":
		return bi(0)
	case "one":
		return bi(1)
	case "eq":
		return new(big.Int).Set(b)
	case "eq-1":
		return new(big.Int).Sub(b, bi(1))
	case "eq+1":
		return new(big.Int).Add(b, bi(1))
	case "over":
		return new(big.Int).Add(new(big.Int).Mul(b, bi(2)), bi(5))
	case "2^63":
		return pow2(63)
	case "2^255-1":
		return new(big.Int).Sub(pow2(255), bi(1))
	case "-2^63":
		return new(big.Int).Neg(pow2(63))
	}
	panic("class " + c)
}

// TestC02ABISweep: the statement of C02 does not depend on the method - whatever the executable compiled from
// the working tree exports, a balance may only fall in a transaction its holder or the Alphabet witnessed.
func TestC02ABISweep(t *testing.T) {
	balABISweep(t, "C02")
}

// TestC01ABISweep: the same sweep, also with the Alphabet as signer, judged by the statement of C01.
func TestC01ABISweep(t *testing.T) {
	balABISweep(t, "C01")
}

func balABISweep(t *testing.T, prop string) {
	theT = t
	rule := "oracle of C02 per persisted transaction: every account whose balance fell witnessed it or the Alphabet signed"
	if prop == "C01" {
		rule = "signer sets additionally {the Alphabet}; oracle of C01 per persisted transaction: supply = sum of balances, no negative balance, supply moves only by a successful mint/burn of the stated amount, a refused invocation changes nothing, Transfer/TransferX pairs replay to the balances"
	}
	col := ev.New(prop, "abi-sweep",
		"complete enumeration over the ABI of the Balance executable compiled from the working tree (every method, also ones no document mentions): argument tuples from typed pools (Hash160: three users, a contract, the Balance contract, an empty account and every lock account; Integer: -1, 0, 1, 5, the current epoch +-1, 2^30; byte strings: nil, short, a user's address; products above 400 tuples are strided) x signer sets {a stranger, user a1, a single committee member}, on a prepared state with funded users and two lock accounts (re-created when released); "+rule+"; non-trivial = every invocation that HALTs")
	defer func() { col.Flush(true) }()
	nshards, shard := envInt("VERIF_NSHARDS", 1), envInt("VERIF_SHARD_INDEX", 0)
	var man manifest.Manifest
	if err := json.Unmarshal(chainkit.Contract("balance").ManBytes, &man); err != nil {
		t.Fatal(err)
	}
	methods := append([]manifest.Method{}, man.ABI.Methods...)
	sort.Slice(methods, func(i, j int) bool {
		return methods[i].Name+fmt.Sprint(len(methods[i].Parameters)) < methods[j].Name+fmt.Sprint(len(methods[j].Parameters))
	})
	for mi, md := range methods {
		if mi%nshards != shard || strings.HasPrefix(md.Name, "_") {
			continue
		}
		h := ev.NewHistory()
		h.Op("method %s/%d", md.Name, len(md.Parameters))
		evals, halts := 0, 0
		ok := runCase(t, col, h, func() {
			w := newBalWorld(3, h)
			defer w.close()
			alpha := []neotest.Signer{w.c.Alphabet}
			stranger := chainkit.NamedUser("c02-abi-stranger")
			w.names[stranger.ScriptHash()] = "stranger"
			locks := []util.Uint160{}
			prepare := func() {
				st := w.state()
				for _, u := range w.users {
					if st.bal(u.ScriptHash().BytesBE()).Cmp(bi(200)) < 0 {
						w.c.Invoke(alpha, w.bal, "mint", u.ScriptHash(), bi(1000), []byte("fund"))
					}
				}
				live := 0
				for _, l := range locks {
					if st.bal(l.BytesBE()).Sign() > 0 {
						live++
					}
				}
				for live < 2 {
					l := w.freshAddr()
					if o := w.c.Invoke(alpha, w.bal, "lock", []byte("abi"), w.users[live%2].ScriptHash(), l, bi(50), w.epoch+3); !o.Halt {
						panic(chainkit.HarnessError{Msg: "c02 abi sweep: lock: " + o.Fault})
					}
					locks = append(locks, l)
					live++
				}
			}
			prepare()
			pool := func(typ string) []any {
				switch typ {
				case "Hash160":
					out := []any{w.users[0].ScriptHash(), w.users[1].ScriptHash(), w.users[2].ScriptHash(), w.actor, w.bal, chainkit.NamedUser("bal-empty").ScriptHash()}
					st := w.state()
					for _, l := range locks {
						if st.bal(l.BytesBE()).Sign() > 0 {
							out = append(out, l)
						}
					}
					return out
				case "Integer":
					return []any{int64(-1), int64(0), int64(1), int64(5), w.epoch - 1, w.epoch, w.epoch + 1, int64(1 << 30)}
				case "Boolean":
					return []any{true, false}
				case "String":
					return []any{"", "x"}
				case "Array":
					return []any{[]any{}}
				default:
					return []any{nil, []byte("d"), w.users[0].ScriptHash().BytesBE()}
				}
			}
			pools := make([][]any, len(md.Parameters))
			total := 1
			for i, p := range md.Parameters {
				pools[i] = pool(p.Type.String())
				total *= len(pools[i])
			}
			stride := 1
			if total > 400 {
				stride = total/400 + 1
				for stride%2 == 0 || stride%3 == 0 || stride%7 == 0 { // co-prime with the pool sizes: every value of every position occurs
					stride++
				}
			}
			signerSets := [][]neotest.Signer{{stranger}, {w.users[0]}, {w.c.Member(0)}}
			if prop == "C01" {
				signerSets = append(signerSets, alpha)
			}
			for idx := 0; idx < total; idx += stride {
				args := make([]any, len(pools))
				x := idx
				for i := range pools {
					args[i] = pools[i][x%len(pools[i])]
					x /= len(pools[i])
				}
				for si, signers := range signerSets {
					if si == 3 && nullAddr(md, args) {
						// Alphabet-only methods get well-formed addresses (the Inner Ring derives them from validated events)
						continue
					}
					if si == 3 && md.Name == "lock" {
						// the property's domain: the Alphabet locks onto fresh addresses only (the stateful group does that)
						continue
					}
					op := &balOp{kind: md.Name, amount: bi(0), signers: signers}
					if (md.Name == "mint" || md.Name == "burn") && len(args) > 1 {
						if v, isInt := args[1].(int64); isInt {
							op.amount = bi(v)
						}
					}
					op.desc = fmt.Sprintf("%s%s signers=%s", md.Name, shortArgs(args), sig(signers, w.names))
					pre := w.state()
					o := w.c.Invoke(signers, w.bal, md.Name, args...)
					post := w.state()
					if o.Halt {
						halts++
						if halts <= 3 {
							h.Op("%s -> %s", op.desc, o)
						}
					}
					if prop == "C01" {
						w.checkC01(pre, post, o, op)
					} else {
						w.checkC02(pre, post, o, op)
					}
					evals++
				}
				if idx%50 == 0 {
					prepare()
				}
			}
			h.NonTrivial()
		})
		col.Bulk(evals, halts)
		if !ok {
			return
		}
	}
	col.SetExhaustive(true)
}

// nullAddr: one of the Hash160 arguments is the Null item.
func nullAddr(md manifest.Method, args []any) bool {
	for i, p := range md.Parameters {
		if p.Type.String() == "Hash160" && args[i] == nil {
			return true
		}
	}
	return false
}
