package props

import (
	"fmt"
	"math/big"
	"testing"

	"github.com/nspcc-dev/neo-go/pkg/neotest"
	"pgregory.net/rapid"

	"verif/harness/ev"
)

func TestC02Stateful(t *testing.T) {
	theT = t
	col := ev.New("C02", "stateful",
		"rapid state machine (same generator as C01, weighted towards the public transfer) on committees of 1 and 3; per transaction: every account whose balance fell witnessed the transaction, is the calling contract, or the Alphabet signed; non-trivial = history containing a non-zero transfer attempt whose signer set is not exactly {from}",
		"Alphabet-only methods receive well-formed 20-byte addresses", "lock targets are fresh addresses")
	runRapid(t, col, func(rt *rapid.T, h *ev.History) {
		n := rapid.SampledFrom([]int{1, 3}).Draw(rt, "n")
		w := newBalWorld(n, h)
		defer w.close()
		w.c02 = true
		h.Op("committee n=%d", n)
		for i, u := range w.users {
			op := &balOp{kind: "mint", amount: bi(int64(50 * (i + 1))), signers: []neotest.Signer{w.c.Alphabet}, desc: fmt.Sprintf("mint(a%d,%d)", i+1, 50*(i+1))}
			w.do(op, w.bal, "mint", u.ScriptHash(), op.amount, []byte("init"))
		}
		w.do(&balOp{kind: "mint", amount: bi(77), signers: []neotest.Signer{w.c.Alphabet}, desc: "mint(actor,77)"}, w.bal, "mint", w.actor, bi(77), []byte("init"))
		kinds := []string{"transfer", "transfer", "transfer", "transfer", "transfer", "transferX", "mint", "mint", "burn", "lock", "newEpoch", "tick"}
		steps := rapid.IntRange(1, 25).Draw(rt, "steps")
		for i := 0; i < steps; i++ {
			w.balStep(rt, kinds)
		}
		if h.Has("debit-attempt-signers-not-exactly-from") {
			h.NonTrivial()
		}
	})
}

// TestC02Matrix enumerates single public transfers completely over
// amount class x signer subset x from x to x {direct, via contract}.
func TestC02Matrix(t *testing.T) {
	theT = t
	col := ev.New("C02", "matrix",
		"complete enumeration of single transfer calls: 11 amount classes x every subset of the signer pool x (from,to) in population^2 (3 users, contract account, the Balance contract's own address, empty account) x {entry script, via contract}; every case is a distinct non-trivial debit attempt unless signers = {from}",
		"state evolves between cases and is re-funded when an account runs dry (the oracle is per transaction and state independent)")
	defer func() { col.Flush(true) }()
	ns := []int{1}
	if ev.Thorough() {
		ns = []int{1, 3}
	}
	total := 0
	for _, n := range ns {
		hh := ev.NewHistory()
		w := newBalWorld(n, hh)
		pop := w.addrPool(w.state())
		signerPool := w.signerPool()
		classes := []string{"neg1", "negBig", "zero", "one", "eq", "eq-1", "eq+1", "over", "2^63", "2^255-1", "-2^63"}
		refund := func() {
			st := w.state()
			for _, a := range pop[:5] {
				if st.bal(a).Cmp(bi(20)) < 0 {
					w.c.Invoke([]neotest.Signer{w.c.Alphabet}, w.bal, "mint", a, bi(100), []byte("refund"))
				}
			}
		}
		for _, cls := range classes {
			for mask := 0; mask < 1<<len(signerPool); mask++ {
				var signers []neotest.Signer
				for i := range signerPool {
					if mask&(1<<i) != 0 {
						signers = append(signers, signerPool[i])
					}
				}
				for _, from := range pop {
					for _, to := range pop {
						for _, via := range []bool{false, true} {
							refund()
							h := ev.NewHistory()
							w.h = h
							b := w.state().bal(from)
							amt := classAmount(cls, b)
							op := &balOp{kind: "transfer", amount: amt, signers: signers, viaActor: via}
							op.desc = fmt.Sprintf("n=%d transfer(%s->%s,%v[%s]) signers=%s via=%v", n, w.name(from), w.name(to), amt, cls, sig(signers, w.names), via)
							ok := runCase(t, col, h, func() {
								p1, p2, out := w.do(op, w.bal, "transfer", from, to, amt, nil)
								w.checkC02(p1, p2, out, op)
								h.NonTrivial()
								if b, isb := out.Bool(); out.Halt && isb && b {
									h.Mark("accepted")
								} else {
									h.Mark("refused")
								}
							})
							total++
							if !ok {
								w.close()
								return
							}
						}
					}
				}
			}
		}
		w.close()
	}
	col.SetExhaustive(true)
	col.Extra("matrix_cases", total)
}

func classAmount(c string, b *big.Int) *big.Int {
	switch c {
	case "neg1":
		return bi(-1)
	case "negBig":
		return new(big.Int).Neg(new(big.Int).Add(b, bi(7)))
	case "zero":
		return bi(0)
	case "one":
		return bi(1)
	case "eq":
		return new(big.Int).Set(b)
	case "eq-1":
		return new(big.Int).Sub(b, bi(1))
	case "eq+1":
		return new(big.Int).Add(b, bi(1))
	case "over":
		return new(big.Int).Add(new(big.Int).Mul(b, bi(2)), bi(5))
	case "2^63":
		return pow2(63)
	case "2^255-1":
		return new(big.Int).Sub(pow2(255), bi(1))
	case "-2^63":
		return new(big.Int).Neg(pow2(63))
	}
	panic("class " + c)
}
