package props

import (
	"fmt"
	"github.com/nspcc-dev/neo-go/pkg/core/transaction"
	"math/big"
	"testing"

	"github.com/nspcc-dev/neo-go/pkg/core/native/nativenames"
	"github.com/nspcc-dev/neo-go/pkg/crypto/keys"
	"github.com/nspcc-dev/neo-go/pkg/neotest"
	"github.com/nspcc-dev/neo-go/pkg/util"
	"pgregory.net/rapid"

	"verif/harness/chainkit"
	"verif/harness/ev"
)

const gasUnit = int64(1_0000_0000)

// gasLedger snapshots GAS balances of a watch list.
func gasLedger(c *chainkit.Chain, accs []util.Uint160) map[util.Uint160]int64 {
	m := map[util.Uint160]int64{}
	for _, a := range accs {
		m[a] = c.GAS(a)
	}
	return m
}

func expectDeltas(prop string, c *chainkit.Chain, pre map[util.Uint160]int64, want map[util.Uint160]int64, names map[util.Uint160]string, what string) {
	for a, before := range pre {
		d := c.GAS(a) - before
		if d != want[a] {
			fail("%s: GAS of %s changed by %d, expected %d (%s)", prop, names[a], d, want[a], what)
		}
	}
}

func TestC19Main(t *testing.T) {
	theT = t
	col := ev.New("C19", "main",
		"rapid state machine on the main-chain NeoFS+Processing contracts (with Notary: Alphabet = chain committee of 1, 3, 4 or 6 keys - with 3 and 6 the committee-majority account differs from the Alphabet account and is one of the refused signers; without Notary: 1..4 stored keys): GAS deposits with amounts {-1,0,1,random,9000 GAS-1,9000 GAS,9000 GAS+1} and data {nil, empty, 20 bytes, 19, 21, the 2-byte ignore marker, 2 other bytes, an integer}; direct onNEP17Payment calls and payments in a foreign token; withdraw 0..9001 with/without the user's witness under changing WithdrawFee (without Notary also by a user that is itself a stored Alphabet key, at any position); cheque by the Alphabet / by others (Notary mode) and approved by single votes of the stored keys in generated order (without Notary: paid exactly by the vote completing 2k/3+1, with another ballot pending, with a vote sent again afterwards); candidate registration under changing fee; per transaction the exact GAS deltas of all parties (fees isolated on a separate payer), the Deposit/Withdraw/Cheque notifications and after every step contract balance = received - cheques; non-trivial = history with an accepted deposit, a refused deposit at a boundary and a withdraw or cheque",
		"transaction fees are paid by a separate account", "vote collection without Notary is C17; here the non-Notary mode checks the per-key withdraw fee and that a voted cheque is paid exactly once")
	runRapid(t, col, func(rt *rapid.T, h *ev.History) {
		notaryDisabled := rapid.IntRange(0, 2).Draw(rt, "noNotary") == 0
		nChain := rapid.SampledFrom([]int{1, 3, 4, 6}).Draw(rt, "committee") // 3 and 6: the majority account is not the Alphabet account
		k := nChain
		if notaryDisabled {
			k = rapid.IntRange(1, 4).Draw(rt, "storedKeys")
		}
		wfee := rapid.SampledFrom([]int64{0, 1, 7000_0000}).Draw(rt, "withdrawFee")
		cfee := rapid.SampledFrom([]int64{0, 1, 10 * gasUnit}).Draw(rt, "candidateFee")
		w := newMainWorld(nChain, k, notaryDisabled, h, "InnerRingCandidateFee", cfee, "WithdrawFee", wfee)
		defer w.close()
		h.Op("notaryDisabled=%v committee=%d storedKeys=%d withdrawFee=%d candidateFee=%d", notaryDisabled, nChain, k, wfee, cfee)
		names := map[util.Uint160]string{w.neofs: "NeoFS contract", w.proc: "Processing contract"}
		var users []neotest.SingleSigner
		watch := []util.Uint160{w.neofs, w.proc}
		for i := 0; i < 3; i++ {
			u := chainkit.NamedUser(fmt.Sprintf("c19-user-%d", i))
			users = append(users, u)
			w.c.FundGAS(u.ScriptHash(), 30000*gasUnit)
			names[u.ScriptHash()] = fmt.Sprintf("user%d", i)
			watch = append(watch, u.ScriptHash())
		}
		var alphaAccs []util.Uint160
		for i, kk := range w.keys {
			a := kk.PublicKey().GetScriptHash()
			alphaAccs = append(alphaAccs, a)
			names[a] = fmt.Sprintf("alphabet-key-%d account", i)
			if notaryDisabled {
				// (with Notary the stored keys are the chain's committee, which earns block rewards)
				watch = append(watch, a)
			}
		}
		cands := []neotest.SingleSigner{chainkit.NamedUser("c19-cand-0"), chainkit.NamedUser("c19-cand-1")}
		for i, cd := range cands {
			w.c.FundGAS(cd.ScriptHash(), 25*gasUnit)
			names[cd.ScriptHash()] = fmt.Sprintf("candidate%d", i)
			watch = append(watch, cd.ScriptHash())
		}
		var payee util.Uint160
		copy(payee[:], []byte("c19-cheque-payee...."))
		names[payee] = "payee"
		watch = append(watch, payee)
		token := w.c.Deploy(chainkit.Probe("token", ""), nil)
		received, cheques := int64(0), int64(0)
		inList := map[int]bool{}
		marker := []byte{0x57, 0x0b}
		steps := rapid.IntRange(2, 22).Draw(rt, "steps")
		for s := 0; s < steps; s++ {
			pre := gasLedger(w.c, watch)
			want := map[util.Uint160]int64{}
			switch rapid.SampledFrom([]string{"deposit", "deposit", "deposit", "deposit", "withdraw", "withdraw", "cheque", "cheque", "candidate", "direct", "foreign", "fee"}).Draw(rt, "kind") {
			case "deposit":
				ui := rapid.IntRange(0, 2).Draw(rt, "user")
				u := users[ui]
				var amount int64
				acls := rapid.SampledFrom([]string{"-1", "0", "1", "rnd", "max-1", "max", "max+1"}).Draw(rt, "amountClass")
				switch acls {
				case "-1":
					amount = -1
				case "0":
					amount = 0
				case "1":
					amount = 1
				case "rnd":
					amount = int64(rapid.IntRange(2, 500).Draw(rt, "amount")) * 1000_0000
				case "max-1":
					amount = 9000*gasUnit - 1
				case "max":
					amount = 9000 * gasUnit
				default:
					amount = 9000*gasUnit + 1
				}
				dcls := rapid.SampledFrom([]string{"nil", "empty", "20", "20", "19", "21", "marker", "2other", "int", "20marker", "marker+1"}).Draw(rt, "dataClass")
				var data any
				rcv := u.ScriptHash().BytesBE()
				switch dcls {
				case "empty":
					data = []byte{}
				case "20":
					data = users[(ui+1)%3].ScriptHash().BytesBE()
					rcv = users[(ui+1)%3].ScriptHash().BytesBE()
				case "19":
					data = users[0].ScriptHash().BytesBE()[:19]
				case "21":
					data = append(users[0].ScriptHash().BytesBE(), 1)
				case "marker":
					data = marker
				case "20marker":
					// a receiver whose 20-byte address happens to start with the two marker bytes: a deposit like any other
					rcv = append(append([]byte{}, marker...), users[(ui+1)%3].ScriptHash().BytesBE()[2:]...)
					data = rcv
				case "marker+1":
					// three bytes that start with the marker: neither the marker nor an address
					data = append(append([]byte{}, marker...), 0x01)
				case "2other":
					data = []byte{0x57, 0x0c}
				case "int":
					data = int64(1234567)
				}
				// keep the user liquid
				if w.c.GAS(u.ScriptHash()) < 9001*gasUnit {
					w.c.FundGAS(u.ScriptHash(), 20000*gasUnit)
					pre = gasLedger(w.c, watch)
				}
				o := w.c.Invoke([]neotest.Signer{u}, w.gas, "transfer", u.ScriptHash(), w.neofs, amount, data)
				what := fmt.Sprintf("deposit of %d (%s) by user%d with data %s", amount, acls, ui, dcls)
				h.Op("%s -> %s", what, o)
				validData := dcls == "nil" || dcls == "empty" || dcls == "20" || dcls == "20marker"
				accept := (dcls == "marker" && amount >= 0) || (validData && amount > 0 && amount <= 9000*gasUnit)
				ok := o.Halt
				if b, isb := o.Bool(); o.Halt && isb && !b {
					ok = false
				}
				if accept != ok {
					fail("C19: %s: expected accepted=%v, got %s", what, accept, o)
				}
				deps := chainkit.EventsNamed(o.Events, "Deposit")
				if accept {
					want[u.ScriptHash()] = -amount
					want[w.neofs] = amount
					received += amount
					if dcls == "marker" {
						if len(deps) != 0 {
							fail("C19: a payment with the ignore marker produced a Deposit notification")
						}
						h.Mark("marker-payment")
					} else {
						if len(deps) != 1 {
							fail("C19: %s: %d Deposit notifications, expected exactly one", what, len(deps))
						}
						a := chainkit.ItemArr(deps[0].Item)
						if string(chainkit.ItemBytes(a[0])) != string(u.ScriptHash().BytesBE()) || chainkit.ItemInt(a[1]) != amount ||
							string(chainkit.ItemBytes(a[2])) != string(rcv) || string(chainkit.ItemBytes(a[3])) != string(o.TxHash.BytesBE()) {
							fail("C19: %s: Deposit notification %s does not match (from, amount, receiver %x, tx)", what, chainkit.ItemString(deps[0].Item), rcv)
						}
						h.Mark("deposit-accepted")
					}
				} else {
					if len(deps) != 0 {
						fail("C19: refused %s produced a Deposit notification", what)
					}
					h.Mark("deposit-refused")
					if acls == "max+1" || acls == "0" || dcls == "19" || dcls == "21" {
						h.Mark("deposit-refused-at-boundary")
					}
				}
			case "direct":
				// onNEP17Payment called by somebody who is not the GAS contract
				mk := rapid.Bool().Draw(rt, "marker")
				var data any = users[0].ScriptHash().BytesBE()
				if mk {
					data = marker
				}
				o := w.c.Invoke([]neotest.Signer{users[0]}, w.neofs, "onNEP17Payment", users[0].ScriptHash(), int64(5*gasUnit), data)
				h.Op("direct onNEP17Payment(marker=%v) -> %s", mk, o)
				if len(chainkit.EventsNamed(o.Events, "Deposit")) != 0 {
					fail("C19: a direct onNEP17Payment call produced a Deposit notification although no GAS was received")
				}
				if !mk && o.Halt {
					fail("C19: a direct onNEP17Payment call was accepted: %s", o)
				}
			case "foreign":
				o := w.c.Invoke([]neotest.Signer{users[1]}, token, "transfer", users[1].ScriptHash(), w.neofs, int64(7*gasUnit), users[1].ScriptHash().BytesBE())
				h.Op("payment in a foreign token -> %s", o)
				if o.Halt || len(chainkit.EventsNamed(o.Events, "Deposit")) != 0 {
					fail("C19: a payment in a foreign token was accepted as a deposit: %s", o)
				}
				o = w.c.Invoke([]neotest.Signer{users[1]}, token, "transfer", users[1].ScriptHash(), w.proc, int64(7), nil)
				if o.Halt {
					fail("C19: Processing accepted a foreign token: %s", o)
				}
				o = w.c.Invoke([]neotest.Signer{w.c.Validators}, w.c.NativeHash(nativenames.Neo), "transfer", w.c.Validators.ScriptHash(), w.proc, int64(1), nil)
				if b, _ := o.Bool(); o.Halt && b {
					fail("C19: Processing accepted NEO: %s", o)
				}
				h.Mark("foreign-token")
			case "withdraw":
				ui := rapid.IntRange(0, 2).Draw(rt, "user")
				u := users[ui]
				uname := fmt.Sprintf("user%d", ui)
				if notaryDisabled && rapid.IntRange(0, 2).Draw(rt, "userIsAStoredKey") == 0 {
					// the withdrawing user is itself one of the stored Alphabet keys: it pays every other key
					// (the payment to itself is neutral), whatever its position in the list
					ki := rapid.IntRange(0, len(w.members)-1).Draw(rt, "storedKey")
					u = w.members[ki]
					uname = fmt.Sprintf("the account of stored key %d", ki)
					if w.c.GAS(u.ScriptHash()) < 50*gasUnit {
						w.c.FundGAS(u.ScriptHash(), 100*gasUnit)
						pre = gasLedger(w.c, watch)
					}
					h.Mark("withdraw-by-a-stored-alphabet-key")
				}
				amount := int64(rapid.SampledFrom([]int{-1, 0, 1, 17, 8999, 9000, 9001}).Draw(rt, "amount"))
				witness := rapid.IntRange(0, 5).Draw(rt, "noWitness") != 0
				signers := []neotest.Signer{u}
				if !witness {
					signers = []neotest.Signer{users[(ui+1)%3]}
				}
				// one witnessed call in five limits the witness to the entry call (scope CalledByEntry): the fee transfers
				// inside native GAS do not see it - the call may be refused as a whole, but if it is accepted the fee is paid
				scoped := witness && rapid.IntRange(0, 4).Draw(rt, "calledByEntry") == 0
				if scoped {
					w.c.NextScope = transaction.CalledByEntry
				}
				o := w.c.Invoke(signers, w.neofs, "withdraw", u.ScriptHash(), amount)
				what := fmt.Sprintf("withdraw(%s, %d) witness=%v calledByEntry=%v fee=%d", uname, amount, witness, scoped, wfee)
				h.Op("%s -> %s", what, o)
				accept := witness && amount >= 0 && amount <= 9000
				if scoped && accept && !o.Halt {
					accept = false
					h.Mark("scoped-call-refused")
				}
				if accept != o.Halt {
					fail("C19: %s: expected accepted=%v, got %s", what, accept, o)
				}
				wd := chainkit.EventsNamed(o.Events, "Withdraw")
				if accept {
					if notaryDisabled {
						want[u.ScriptHash()] = -wfee * int64(len(alphaAccs))
						for _, a := range alphaAccs {
							want[a] += wfee
						}
					} else {
						want[u.ScriptHash()] = -wfee
						want[w.proc] = wfee
					}
					if len(wd) != 1 {
						fail("C19: %s: %d Withdraw notifications", what, len(wd))
					}
					a := chainkit.ItemArr(wd[0].Item)
					if string(chainkit.ItemBytes(a[0])) != string(u.ScriptHash().BytesBE()) || chainkit.ItemInt(a[1]) != amount*gasUnit || string(chainkit.ItemBytes(a[2])) != string(o.TxHash.BytesBE()) {
						fail("C19: %s: Withdraw notification %s", what, chainkit.ItemString(wd[0].Item))
					}
					h.Mark("withdraw-ok")
				} else if len(wd) != 0 {
					fail("C19: refused %s produced a Withdraw notification", what)
				}
			case "cheque":
				if notaryDisabled {
					// without Notary a cheque is approved by single votes of the stored keys: it must be paid by the
					// vote that completes 2k/3+1 distinct votes, and only by that one - also when another ballot is
					// pending and when a vote is sent again afterwards
					k := len(w.members)
					thr := k*2/3 + 1
					bal := w.c.GAS(w.neofs)
					if bal <= 0 {
						break
					}
					amount := rapid.SampledFrom([]int64{1, (bal + 1) / 2, bal}).Draw(rt, "amount")
					id := []byte(fmt.Sprintf("cheque-%d", s))
					if thr > 1 && rapid.Bool().Draw(rt, "otherBallotPending") {
						o := w.c.Invoke([]neotest.Signer{w.members[0]}, w.neofs, "setConfig", []byte(fmt.Sprintf("pending-%d", s)), []byte("SomeKey"), leInt(int64(s)))
						if !o.Halt {
							fail("C19 harness: single setConfig vote: %s", o)
						}
						h.Op("member 0 opens another ballot (setConfig pending-%d)", s)
						h.Mark("cheque-with-other-ballot-pending")
					}
					order := rapid.Permutation(seq(0, k)).Draw(rt, "voters")
					votes := rapid.IntRange(1, k).Draw(rt, "votes")
					vote := func(m int, pays bool, label string) {
						pre := gasLedger(w.c, watch)
						o := w.c.Invoke([]neotest.Signer{w.members[m]}, w.neofs, "cheque", id, payee, amount, []byte("lock"))
						what := fmt.Sprintf("%s of cheque %s (%d GAS units, threshold %d of %d) by stored key %d", label, id, amount, thr, k, m)
						h.Op("%s -> %s", what, o)
						if !o.Halt {
							fail("C19: %s failed: %s", what, o)
						}
						want := map[util.Uint160]int64{}
						ch := chainkit.EventsNamed(o.Events, "Cheque")
						if pays {
							want[w.neofs], want[payee] = -amount, amount
							cheques += amount
							if len(ch) != 1 || chainkit.ItemInt(chainkit.ItemArr(ch[0].Item)[2]) != amount {
								fail("C19: %s completes the approval but %d Cheque notifications were emitted", what, len(ch))
							}
							h.Mark("cheque-ok")
							h.Mark("cheque-paid-by-votes")
						} else if len(ch) != 0 {
							fail("C19: %s does not complete an approval but a Cheque notification was emitted", what)
						}
						expectDeltas("C19", w.c, pre, want, names, what)
					}
					for j := 0; j < votes; j++ {
						vote(order[j], j+1 == thr, fmt.Sprintf("vote %d", j+1))
					}
					if votes >= thr && thr > 1 && rapid.Bool().Draw(rt, "voteAgain") {
						vote(order[rapid.IntRange(0, votes-1).Draw(rt, "again")], false, "a vote sent again after the payment")
						h.Mark("cheque-vote-after-payment")
					}
					pre = gasLedger(w.c, watch)
					break
				}
				bal := w.c.GAS(w.neofs)
				amount := rapid.SampledFrom([]int64{0, 1, bal / 2, bal, bal + 1}).Draw(rt, "amount")
				by := rapid.SampledFrom([]string{"alphabet", "alphabet", "alphabet", "user", "majority", "majority", "member", "short"}).Draw(rt, "by")
				var signers []neotest.Signer
				switch by {
				case "alphabet":
					signers = []neotest.Signer{w.c.Alphabet}
				case "user":
					signers = []neotest.Signer{users[0]}
				case "majority":
					signers = []neotest.Signer{w.c.Committee}
				case "short":
					// one signature short of the Alphabet threshold
					signers = []neotest.Signer{w.c.MultisigOf(max(chainkit.AlphabetThreshold(w.c.N)-1, 1))}
				default:
					signers = []neotest.Signer{w.c.Member(0)}
				}
				if by == "majority" && w.c.Committee.ScriptHash() != w.c.Alphabet.ScriptHash() {
					h.Mark("cheque-by-majority-that-is-not-the-alphabet")
				}
				isAlpha := by == "alphabet" || (by == "short" && w.c.N == 1) || (by == "majority" && w.c.Committee.ScriptHash() == w.c.Alphabet.ScriptHash())
				o := w.c.Invoke(signers, w.neofs, "cheque", []byte(fmt.Sprintf("cheque-%d", s)), payee, amount, []byte("lock"))
				what := fmt.Sprintf("cheque(%d of %d) by %s", amount, bal, by)
				h.Op("%s -> %s", what, o)
				accept := isAlpha && amount <= bal && amount >= 0
				if accept != o.Halt {
					fail("C19: %s: expected accepted=%v, got %s", what, accept, o)
				}
				ch := chainkit.EventsNamed(o.Events, "Cheque")
				if accept {
					want[w.neofs] = -amount
					want[payee] = amount
					cheques += amount
					if len(ch) != 1 || chainkit.ItemInt(chainkit.ItemArr(ch[0].Item)[2]) != amount {
						fail("C19: %s: Cheque notifications %d", what, len(ch))
					}
					h.Mark("cheque-ok")
				} else if len(ch) != 0 {
					fail("C19: refused %s produced a Cheque notification", what)
				}
			case "candidate":
				ci := rapid.IntRange(0, 1).Draw(rt, "candidate")
				cd := cands[ci]
				key := cd.Account().PublicKey().Bytes()
				witness := rapid.IntRange(0, 4).Draw(rt, "noWitness") != 0
				signers := []neotest.Signer{cd}
				if !witness {
					signers = []neotest.Signer{users[0]}
				}
				scoped := witness && rapid.IntRange(0, 4).Draw(rt, "calledByEntry") == 0
				if scoped {
					w.c.NextScope = transaction.CalledByEntry
				}
				o := w.c.Invoke(signers, w.neofs, "innerRingCandidateAdd", key)
				what := fmt.Sprintf("innerRingCandidateAdd(candidate%d) witness=%v calledByEntry=%v fee=%d", ci, witness, scoped, cfee)
				h.Op("%s -> %s", what, o)
				accept := witness && !inList[ci] && w.c.GAS(cd.ScriptHash()) >= 0 && pre[cd.ScriptHash()] >= cfee
				if scoped && accept && !o.Halt {
					accept = false
					h.Mark("scoped-call-refused")
				}
				if accept != o.Halt {
					fail("C19: %s: expected accepted=%v, got %s", what, accept, o)
				}
				if accept {
					inList[ci] = true
					want[cd.ScriptHash()] = -cfee
					want[w.neofs] = cfee
					received += cfee
					h.Mark("candidate-fee")
				}
				if len(chainkit.EventsNamed(o.Events, "Deposit")) != 0 {
					fail("C19: a candidate fee was reported as a Deposit")
				}
			case "fee":
				if notaryDisabled {
					break
				}
				key := rapid.SampledFrom([]string{"WithdrawFee", "InnerRingCandidateFee"}).Draw(rt, "feeKey")
				val := rapid.SampledFrom([]int64{0, 1, 3, 5 * gasUnit}).Draw(rt, "feeVal")
				o := w.c.Invoke([]neotest.Signer{w.c.Alphabet}, w.neofs, "setConfig", []byte(fmt.Sprintf("cfg-%d", s)), []byte(key), leInt(val))
				if !o.Halt {
					fail("C19 harness: setConfig: %s", o)
				}
				if key == "WithdrawFee" {
					wfee = val
				} else {
					cfee = val
				}
				h.Op("setConfig %s=%d", key, val)
			}
			expectDeltas("C19", w.c, pre, want, names, h.Ops[len(h.Ops)-1])
			if g := w.c.GAS(w.neofs); g != received-cheques {
				fail("C19: the NeoFS contract holds %d, received %d - cheques %d = %d", g, received, cheques, received-cheques)
			}
		}
		if h.Has("deposit-accepted") && h.Has("deposit-refused-at-boundary") && (h.Has("withdraw-ok") || h.Has("cheque-ok")) {
			h.NonTrivial()
		}
	})
}

// ---------------------------------------------------------------------------
// emit

type emitWorld struct {
	c     *chainkit.Chain
	fs    *chainkit.FS
	proxy util.Uint160
	ir    []util.Uint160
	names map[util.Uint160]string
	// role rotation
	gen    int
	former []util.Uint160
}

func newEmitWorld(n, r int) *emitWorld {
	// (committees of 4 and more keys have fewer consensus nodes than members when the Inner Ring size is even)
	v := 0
	if n >= 4 && r%2 == 0 {
		v = n - 2
	}
	c := chainkit.NewChain(theT, n, chainkit.Options{Validators: v})
	fs := chainkit.NewFS(c, chainkit.FSOptions{Contracts: []string{"netmap", "proxy", "alphabet"}})
	w := &emitWorld{c: c, fs: fs, proxy: fs.H["proxy"], names: map[util.Uint160]string{fs.H["proxy"]: "Proxy"}}
	var pubs keys.PublicKeys
	for i := 0; i < r; i++ {
		k := chainkit.DetKey(fmt.Sprintf("inner-ring-%d", i))
		pubs = append(pubs, k.PublicKey())
		w.ir = append(w.ir, k.PublicKey().GetScriptHash())
		w.names[k.PublicKey().GetScriptHash()] = fmt.Sprintf("Inner Ring node %d", i)
	}
	c.DesignateAlphabet(pubs)
	return w
}

// rotate designates r fresh Inner Ring keys; the dismissed ones stay watched.
func (w *emitWorld) rotate(r int) {
	w.gen++
	w.former = append(w.former, w.ir...)
	w.ir = nil
	var pubs keys.PublicKeys
	for i := 0; i < r; i++ {
		k := chainkit.DetKey(fmt.Sprintf("inner-ring-gen%d-%d", w.gen, i))
		pubs = append(pubs, k.PublicKey())
		w.ir = append(w.ir, k.PublicKey().GetScriptHash())
		w.names[k.PublicKey().GetScriptHash()] = fmt.Sprintf("Inner Ring node %d (generation %d)", i, w.gen)
	}
	w.c.DesignateAlphabet(pubs)
}

// orphanEmit: an Alphabet contract whose index has no committee member (index >= committee size, e.g. after the
// committee shrank) has no "own Alphabet node": nobody can trigger its emission.
func (w *emitWorld) orphanEmit(h *ev.History, gasBal int64) {
	c := w.c
	for _, extra := range []int{0, 2} {
		index := c.N + extra
		nm := fmt.Sprintf("orphan%d", index)
		orphan := c.Deploy(chainkit.ContractNamed("alphabet", nm), []any{false, w.fs.H["netmap"], w.proxy, nm, int64(index), int64(c.N)})
		w.names[orphan] = fmt.Sprintf("Alphabet contract with index %d (committee of %d)", index, c.N)
		if gasBal > 0 {
			if o := c.Invoke([]neotest.Signer{c.Validators}, c.NativeHash(nativenames.Gas), "transfer", c.Validators.ScriptHash(), orphan, gasBal, nil); !o.Halt {
				fail("C19 harness: fund orphan: %s", o)
			}
		}
		watch := append(append([]util.Uint160{orphan, w.proxy}, w.ir...), w.former...)
		for i := 0; i < c.N; i++ {
			pre := gasLedger(c, watch)
			o := c.Invoke([]neotest.Signer{c.Member(i)}, orphan, "emit")
			what := fmt.Sprintf("emit of an Alphabet contract with index %d on a committee of %d by member %d", index, c.N, i)
			h.Op("%s -> %s", what, o)
			if o.Halt {
				fail("C19: %s was accepted although the contract has no own Alphabet node", what)
			}
			expectDeltas("C19", c, pre, map[util.Uint160]int64{}, w.names, what)
		}
		h.Mark("emit-of-a-contract-without-own-node")
	}
}

// emitOnce sets the contract's balances, triggers emit and checks the split.
func (w *emitWorld) emitOnce(h *ev.History, idx int, gasBal int64, neo int64, caller string) {
	c := w.c
	alpha := w.fs.H[fmt.Sprintf("alphabet%d", idx)]
	w.names[alpha] = fmt.Sprintf("Alphabet contract %d", idx)
	gas, neoH := c.NativeHash(nativenames.Gas), c.NativeHash(nativenames.Neo)
	cur := c.GAS(alpha)
	if gasBal > cur {
		if o := c.Invoke([]neotest.Signer{c.Validators}, gas, "transfer", c.Validators.ScriptHash(), alpha, gasBal-cur, nil); !o.Halt {
			fail("C19 harness: fund alphabet: %s", o)
		}
	}
	if neo > 0 {
		if o := c.Invoke([]neotest.Signer{c.Validators}, neoH, "transfer", c.Validators.ScriptHash(), alpha, neo, nil); !o.Halt {
			fail("C19 harness: NEO to alphabet: %s", o)
		}
		c.Skip(3)
	}
	watch := append(append([]util.Uint160{alpha, w.proxy}, w.ir...), w.former...)
	pre := gasLedger(c, watch)
	var signers []neotest.Signer
	switch caller {
	case "own":
		signers = []neotest.Signer{c.Member(idx)}
	case "other-member":
		signers = []neotest.Signer{c.Member((idx + 1) % c.N)}
	case "alphabet-multisig":
		signers = []neotest.Signer{c.Alphabet}
	default:
		signers = []neotest.Signer{chainkit.NamedUser("emit-stranger")}
	}
	o := c.Invoke(signers, alpha, "emit")
	what := fmt.Sprintf("emit of Alphabet contract %d with %d GAS units and %d NEO, %d Inner Ring nodes, caller %s", idx, pre[alpha], neo, len(w.ir), caller)
	h.Op("%s -> %s", what, o)
	permitted := caller == "own" || (caller == "other-member" && c.N == 1)
	// GAS minted to the contract by the NEO self-transfer, as reported by the native GAS contract
	minted := int64(0)
	for _, e := range o.Events {
		if e.ScriptHash == gas && e.Name == "Transfer" {
			a := chainkit.ItemArr(e.Item)
			if chainkit.ItemBytes(a[0]) == nil && string(chainkit.ItemBytes(a[1])) == string(alpha.BytesBE()) {
				minted += chainkit.ItemInt(a[2])
			}
		}
	}
	g := pre[alpha] + minted
	want := map[util.Uint160]int64{}
	if !permitted {
		if o.Halt {
			fail("C19: %s: emit accepted from a caller that is not the contract's own Alphabet node", what)
		}
		h.Mark("emit-refused-caller")
	} else if g/2 == 0 {
		if o.Halt {
			fail("C19: %s: emit with nothing to give succeeded", what)
		}
		h.Mark("emit-nothing")
	} else {
		if !o.Halt {
			fail("C19: %s: emit failed: %s", what, o.Fault)
		}
		pg := g / 2
		per := new(big.Int).Div(new(big.Int).Div(new(big.Int).Mul(bi(g-pg), bi(7)), bi(8)), bi(int64(len(w.ir)))).Int64()
		want[w.proxy] = pg
		for _, a := range w.ir {
			want[a] = per
		}
		want[alpha] = minted - pg - per*int64(len(w.ir))
		h.Mark("emit-ok")
		if per == 0 {
			h.Mark("emit-ok-nothing-per-node")
		}
	}
	expectDeltas("C19", c, pre, want, w.names, what)
}

func TestC19Emit(t *testing.T) {
	theT = t
	col := ev.New("C19", "emit",
		"complete enumeration of Inner Ring sizes 1..7 x contract GAS balances {0,1,2,3,7,8,9,15,16,17,100,10^8,10^12-1,10^12} x NEO {0,100} x callers {own Alphabet node, another committee member, the Alphabet multisignature, a stranger} on committees of 1 and 4 keys (contract index 0 and last), plus Alphabet contracts whose index is the committee size or beyond it (no own node: every member refused); oracle: with g = balance + GAS minted by the NEO self-transfer (read from the native GAS notification), Proxy +floor(g/2), each Inner Ring node +floor((g-floor(g/2))*7/8/N), the contract keeps the rest, nobody else changes; refused callers and g<2 change nothing; non-trivial = every case",
		"Inner Ring size >= 1")
	defer func() { col.Flush(true) }()
	nshards, shard := envInt("VERIF_NSHARDS", 1), envInt("VERIF_SHARD_INDEX", 0)
	idx := 0
	for _, n := range []int{1, 4} {
		for r := 1; r <= 7; r++ {
			for _, bal := range []int64{0, 1, 2, 3, 7, 8, 9, 15, 16, 17, 100, 1_0000_0000, 1_000_000_000_000 - 1, 1_000_000_000_000} {
				for _, neo := range []int64{0, 100} {
					idx++
					if idx%nshards != shard {
						continue
					}
					h := ev.NewHistory()
					ok := runCase(t, col, h, func() {
						w := newEmitWorld(n, r)
						defer w.c.Close()
						ci := 0
						if bal%2 == 1 {
							ci = n - 1
						}
						for _, caller := range []string{"stranger", "other-member", "alphabet-multisig", "own"} {
							w.emitOnce(h, ci, bal, neo, caller)
						}
						if r == 1 && neo == 0 {
							w.orphanEmit(h, bal)
						}
						h.NonTrivial()
					})
					if !ok {
						return
					}
				}
			}
		}
	}
	col.SetExhaustive(true)
}

func TestC19EmitRandom(t *testing.T) {
	theT = t
	col := ev.New("C19", "emit-random",
		"rapid: committees of 1/4/7 keys, Inner Ring 1..7, sequences of emits on random Alphabet contracts with random top-ups 0..10^12 and NEO holdings, plus GAS/NEO/foreign-token payments into Proxy and Alphabet contracts (Proxy must refuse NEO and foreign tokens, Alphabet must refuse foreign tokens); before one emission in five the NeoFSAlphabet role is re-designated to 1..7 other keys in the preceding block (the new list is paid, the dismissed keys are watched and get nothing); same split oracle; non-trivial = at least two successful emits")
	runRapid(t, col, func(rt *rapid.T, h *ev.History) {
		n := rapid.SampledFrom([]int{1, 4, 7}).Draw(rt, "n")
		r := rapid.IntRange(1, 7).Draw(rt, "innerRing")
		w := newEmitWorld(n, r)
		defer w.c.Close()
		token := w.c.Deploy(chainkit.Probe("token", ""), nil)
		okCount := 0
		steps := rapid.IntRange(1, 8).Draw(rt, "steps")
		for s := 0; s < steps; s++ {
			ci := rapid.IntRange(0, n-1).Draw(rt, "contract")
			if rapid.IntRange(0, 3).Draw(rt, "foreign") == 0 {
				alpha := w.fs.H[fmt.Sprintf("alphabet%d", ci)]
				u := chainkit.NamedUser("emit-payer")
				if o := w.c.Invoke([]neotest.Signer{u}, token, "transfer", u.ScriptHash(), alpha, int64(5), nil); o.Halt {
					fail("C19: an Alphabet contract accepted a foreign token: %s", o)
				}
				if o := w.c.Invoke([]neotest.Signer{u}, token, "transfer", u.ScriptHash(), w.proxy, int64(5), nil); o.Halt {
					fail("C19: Proxy accepted a foreign token: %s", o)
				}
				o := w.c.Invoke([]neotest.Signer{w.c.Validators}, w.c.NativeHash(nativenames.Neo), "transfer", w.c.Validators.ScriptHash(), w.proxy, int64(1), nil)
				if b, _ := o.Bool(); o.Halt && b {
					fail("C19: Proxy accepted NEO: %s", o)
				}
				h.Op("foreign token / NEO payments refused")
				continue
			}
			bal := int64(rapid.IntRange(0, 1_000_000_000_000).Draw(rt, "balance"))
			if rapid.IntRange(0, 3).Draw(rt, "small") == 0 {
				bal = int64(rapid.IntRange(0, 40).Draw(rt, "smallBalance"))
			}
			neo := int64(rapid.SampledFrom([]int{0, 0, 1, 1000}).Draw(rt, "neo"))
			caller := rapid.SampledFrom([]string{"own", "own", "own", "other-member", "stranger"}).Draw(rt, "caller")
			if rapid.IntRange(0, 4).Draw(rt, "rotateInnerRing") == 0 {
				// the Inner Ring changes in the block before the emission: the new list is paid, the old one is not
				r2 := rapid.IntRange(1, 7).Draw(rt, "newInnerRing")
				w.rotate(r2)
				h.Op("the NeoFSAlphabet role is re-designated to %d other keys", r2)
				h.Mark("role-rotation")
			}
			before := h.Has("emit-ok")
			w.emitOnce(h, ci, bal, neo, caller)
			_ = before
			if len(h.Ops) > 0 && h.Has("emit-ok") {
				okCount++
			}
		}
		if okCount >= 2 {
			h.NonTrivial()
		}
	})
}
