package props

import (
	"fmt"
	"math/big"
	"os"
	"sort"
	"strings"
	"testing"

	"github.com/nspcc-dev/neo-go/pkg/neotest"
	"github.com/nspcc-dev/neo-go/pkg/util"
	"pgregory.net/rapid"

	"verif/harness/chainkit"
	"verif/harness/ev"
)

// fail aborts the current case as a violation of the property under test.
func fail(format string, args ...any) {
	panic(chainkit.Failure{Msg: fmt.Sprintf(format, args...)})
}

// runRapid drives prop with rapid, recording every case in col. The part file
// is flushed whatever happens.
func runRapid(t *testing.T, col *ev.Collector, prop func(rt *rapid.T, h *ev.History)) {
	defer func() { col.Flush(!t.Failed() || col.Violations() > 0) }()
	rapid.Check(t, func(rt *rapid.T) {
		h := ev.NewHistory()
		defer col.Guard(t.Name(), h)
		prop(rt, h)
	})
}

// runCase runs one enumerated (non-rapid) case with the same bookkeeping;
// returns false when the case failed.
func runCase(t *testing.T, col *ev.Collector, h *ev.History, body func()) (ok bool) {
	defer func() {
		if r := recover(); r != nil {
			col.Case(h)
			col.Fail(t.Name(), fmt.Sprint(r), h)
			t.Errorf("case failed: %v\nhistory:\n  %s", r, strings.Join(h.Ops, "\n  "))
			ok = false
		}
	}()
	body()
	col.Case(h)
	return true
}

func hex(b []byte) string { return fmt.Sprintf("%x", b) }

func sig(signers []neotest.Signer, names map[util.Uint160]string) string {
	var parts []string
	for _, s := range signers {
		if n, ok := names[s.ScriptHash()]; ok {
			parts = append(parts, n)
		} else {
			parts = append(parts, s.ScriptHash().StringLE()[:6])
		}
	}
	sort.Strings(parts)
	return "[" + strings.Join(parts, ",") + "]"
}

func bi(v int64) *big.Int { return big.NewInt(v) }

func pow2(n uint) *big.Int { return new(big.Int).Lsh(big.NewInt(1), n) }

func envInt(name string, def int) int {
	if v := os.Getenv(name); v != "" {
		var x int
		if _, err := fmt.Sscan(v, &x); err == nil {
			return x
		}
	}
	return def
}

// TestMain flushes the contract coverage measurement (VERIF_COVER) when the process ends.
func TestMain(m *testing.M) {
	rc := m.Run()
	chainkit.FlushCoverage()
	os.Exit(rc)
}

// deficientSigners draws a signer set that lacks the Alphabet multisignature: the given
// outsider, a single committee member and - where they differ from the Alphabet account
// (3 keys and more) - the committee majority n/2+1 and 2n/3 of the keys (one short).
func deficientSigners(rt *rapid.T, c *chainkit.Chain, outsider neotest.Signer) []neotest.Signer {
	opts := [][]neotest.Signer{{outsider}, {c.Member(0)}}
	if c.Committee.ScriptHash() != c.Alphabet.ScriptHash() {
		opts = append(opts, []neotest.Signer{c.Committee}, []neotest.Signer{outsider, c.Committee})
		if m := chainkit.AlphabetThreshold(c.N) - 1; m >= 1 && m != chainkit.MajorityThreshold(c.N) {
			opts = append(opts, []neotest.Signer{c.MultisigOf(m)})
		}
	}
	if vh := c.Validators.ScriptHash(); vh != c.Alphabet.ScriptHash() && vh != c.Committee.ScriptHash() {
		opts = append(opts, []neotest.Signer{c.Validators}) // consensus nodes of a chain with fewer validators than committee members
	}
	return opts[rapid.IntRange(0, len(opts)-1).Draw(rt, "deficientSigners")]
}

// pendingValidators is consumed by the next world constructor (balance, netmap, NNS worlds): the number of
// consensus nodes of its chain, 0 = the whole committee.
var pendingValidators int

// drawValidators lets the next world run on a chain with fewer consensus nodes than committee (= Alphabet)
// members in one case of three (1 of 3, 2 of 4, 4 of 7). No contract may notice: the Alphabet is the committee.
func drawValidators(rt *rapid.T, h *ev.History, n int) {
	pendingValidators = 0
	if n >= 3 && rapid.IntRange(0, 2).Draw(rt, "fewerValidators") == 0 {
		pendingValidators = n - 2 - n/7
		h.Mark("committee-larger-than-the-validator-set")
	}
}

func takeValidators() int {
	v := pendingValidators
	pendingValidators = 0
	return v
}

// envInts reads a comma separated list of integers.
func envInts(name string, def []int) []int {
	v := os.Getenv(name)
	if v == "" {
		return def
	}
	var out []int
	for _, f := range strings.Split(v, ",") {
		var x int
		if _, err := fmt.Sscan(strings.TrimSpace(f), &x); err == nil {
			out = append(out, x)
		}
	}
	if len(out) == 0 {
		return def
	}
	return out
}

// subset draws a sub-list of items (each with probability 1/2).
func subset[T any](rt *rapid.T, label string, items []T) []T {
	mask := rapid.IntRange(0, (1<<len(items))-1).Draw(rt, label)
	var res []T
	for i := range items {
		if mask&(1<<i) != 0 {
			res = append(res, items[i])
		}
	}
	return res
}
