//go:build verif

package props

import (
	"bytes"
	"crypto/sha256"
	"encoding/base64"
	"math"
	"testing"

	"github.com/nspcc-dev/neo-go/pkg/core/transaction"
	"github.com/nspcc-dev/neo-go/pkg/neorpc/result"
	"github.com/nspcc-dev/neo-go/pkg/util"
	"github.com/nspcc-dev/neofs-contract/deploy"
	"pgregory.net/rapid"

	"verif/harness/ev"
)

// checkDivision: shares sum to the amount, differ by at most one (receivers
// that are not called count 0), indices distinct and in range.
func checkDivision(amount uint64, n int) {
	seen := map[int]bool{}
	var sum, min, max uint64
	min = math.MaxUint64
	calls := 0
	deploy.VerifDivideFundsEvenly(amount, n, func(ind int, a uint64) {
		if ind < 0 || ind >= n {
			fail("C13: divideFundsEvenly(%d,%d) called receiver index %d", amount, n, ind)
		}
		if seen[ind] {
			fail("C13: divideFundsEvenly(%d,%d) paid receiver %d twice", amount, n, ind)
		}
		seen[ind] = true
		if a == 0 {
			fail("C13: divideFundsEvenly(%d,%d) made an empty payment to %d", amount, n, ind)
		}
		sum += a
		if a < min {
			min = a
		}
		if a > max {
			max = a
		}
		calls++
	})
	if sum != amount {
		fail("C13: divideFundsEvenly(%d,%d): shares sum to %d", amount, n, sum)
	}
	if calls < n {
		min = 0
	}
	if calls > 0 && max-min > 1 {
		fail("C13: divideFundsEvenly(%d,%d): shares differ by %d", amount, n, max-min)
	}
}

func TestC13FundsExhaustive(t *testing.T) {
	theT = t
	col := ev.New("C13", "funds-exhaustive",
		"complete enumeration of divideFundsEvenly(amount, n) for n=1..64 and amount=0..4096: shares sum to the amount, differ by at most one (receivers left out count 0), receiver indices distinct and in range, no empty payment; non-trivial = amount not divisible by n")
	defer func() { col.Flush(true) }()
	evals, nt := 0, 0
	h := ev.NewHistory()
	runCase(t, col, h, func() {
		for n := 1; n <= 64; n++ {
			for a := uint64(0); a <= 4096; a++ {
				checkDivision(a, n)
				evals++
				if a%uint64(n) != 0 {
					nt++
				}
			}
		}
	})
	col.Sample(map[string]any{"amount": 4095, "n": 64})
	col.Bulk(evals, nt)
	col.SetExhaustive(true)
}

func validInvoke() *result.Invoke { return &result.Invoke{State: "HALT"} }

func checkWindow(h uint32) (uint32, uint32) {
	var tx transaction.Transaction
	if err := deploy.VerifTransactionModifier(func() uint32 { return h })(validInvoke(), &tx); err != nil {
		fail("C13: transaction modifier fails at height %d: %v", h, err)
	}
	n, vub := uint64(tx.Nonce), uint64(tx.ValidUntilBlock)
	if n%100 != 0 || !(n <= uint64(h) && uint64(h) < n+100) {
		fail("C13: height %d gives nonce %d (must be the multiple of 100 with nonce <= height < nonce+100)", h, n)
	}
	want := n + 100
	if want > math.MaxUint32 {
		want = math.MaxUint32
	}
	if vub != want {
		fail("C13: height %d gives ValidUntilBlock %d, expected %d", h, vub, want)
	}
	return tx.Nonce, tx.ValidUntilBlock
}

func TestC13WindowEnumerated(t *testing.T) {
	theT = t
	col := ev.New("C13", "window-enumerated",
		"neoFSRuntimeTransactionModifier: every height 0..20000, every height within +-3 of each multiple of 100 up to 10^6, the last 1000 heights below 2^32 and 2^32-1: nonce is the multiple of 100 with nonce <= height < nonce+100, ValidUntilBlock = min(nonce+100, 2^32-1), all heights of one window agree; a non-HALT result is refused and leaves the transaction alone; non-trivial = height within 3 of a window boundary")
	defer func() { col.Flush(true) }()
	evals, nt := 0, 0
	h := ev.NewHistory()
	runCase(t, col, h, func() {
		var heights []uint32
		for x := uint32(0); x <= 20000; x++ {
			heights = append(heights, x)
		}
		for m := uint32(20000); m <= 1_000_000; m += 100 {
			for d := -3; d <= 3; d++ {
				heights = append(heights, uint32(int64(m)+int64(d)))
			}
		}
		for x := uint64(math.MaxUint32) - 1000; x <= math.MaxUint32; x++ {
			heights = append(heights, uint32(x))
		}
		byWindow := map[uint32]uint32{}
		for _, x := range heights {
			n, vub := checkWindow(x)
			if v, ok := byWindow[n]; ok && v != vub {
				fail("C13: heights of window %d disagree on ValidUntilBlock", n)
			}
			byWindow[n] = vub
			evals++
			if x%100 <= 3 || x%100 >= 97 {
				nt++
			}
		}
		for _, st := range []string{"FAULT", "BREAK", "", "halt"} {
			var tx transaction.Transaction
			tx.Nonce, tx.ValidUntilBlock = 7, 9
			if err := deploy.VerifTransactionModifier(func() uint32 { return 12345 })(&result.Invoke{State: st, FaultException: "x"}, &tx); err == nil {
				fail("C13: transaction modifier accepted invocation state %q", st)
			}
			evals++
		}
	})
	col.Sample(map[string]any{"height": 4294967295, "nonce": 4294967200, "vub": 4294967295})
	col.Bulk(evals, nt)
	col.SetExhaustive(true)
}

func TestC13HelpersRandom(t *testing.T) {
	theT = t
	col := ev.New("C13", "helpers-random",
		"rapid: (1) divideFundsEvenly over random uint64 amounts (incl. 2^64-1) and n=1..1000; (2) the window modifier over random uint32 heights; (3) sharedTransactionData: decode(encode(x)) = x for random sender/validUntilBlock/nonce, the binary form is 28 bytes sender||BE(vub)||BE(nonce), wrong lengths 0..40 and corrupted base64 are refused, shift(unshift(x,d)) = (true,d), the checksum of x is accepted for x' != x iff the first four bytes of SHA-256(bytes(x)) and SHA-256(bytes(x')) collide (computed independently), payloads shorter than 4 bytes are refused, sharedTxDataMatches(tx,x) iff nonce, validUntilBlock and first signer all equal; non-trivial = every case")
	runRapid(t, col, func(rt *rapid.T, h *ev.History) {
		// (1)
		amount := rapid.OneOf(rapid.Uint64(), rapid.Just(uint64(math.MaxUint64)), rapid.Uint64Range(0, 5000)).Draw(rt, "amount")
		n := rapid.IntRange(1, 1000).Draw(rt, "receivers")
		checkDivision(amount, n)
		// (2)
		hh := rapid.OneOf(rapid.Uint32(), rapid.Uint32Range(math.MaxUint32-300, math.MaxUint32)).Draw(rt, "height")
		checkWindow(hh)
		// (3)
		mk := func(label string) deploy.VerifSharedTxData {
			var s util.Uint160
			copy(s[:], rapid.SliceOfN(rapid.Byte(), 20, 20).Draw(rt, label+"Sender"))
			return deploy.VerifSharedTxData{Sender: s, ValidUntilBlock: rapid.Uint32().Draw(rt, label+"VUB"), Nonce: rapid.Uint32().Draw(rt, label+"Nonce")}
		}
		x := mk("x")
		h.Op("amount=%d n=%d height=%d shared=%v", amount, n, hh, x)
		b := deploy.VerifSharedBytes(x)
		if len(b) != 28 || !bytes.Equal(b[:20], x.Sender.BytesBE()) ||
			b[20] != byte(x.ValidUntilBlock>>24) || b[23] != byte(x.ValidUntilBlock) || b[24] != byte(x.Nonce>>24) || b[27] != byte(x.Nonce) {
			fail("C13: binary form of %v is %x", x, b)
		}
		d, err := deploy.VerifSharedDecode(deploy.VerifSharedEncode(x))
		if err != nil || d != x {
			fail("C13: decode(encode(%v)) = %v, %v", x, d, err)
		}
		wl := rapid.IntRange(0, 40).Draw(rt, "wrongLen")
		if wl != 28 {
			if _, err := deploy.VerifSharedDecode(base64.StdEncoding.EncodeToString(make([]byte, wl))); err == nil {
				fail("C13: shared transaction data of %d bytes was accepted", wl)
			}
		}
		if _, err := deploy.VerifSharedDecode("!" + deploy.VerifSharedEncode(x)[1:]); err == nil {
			fail("C13: corrupted base64 was accepted")
		}
		payload := rapid.SliceOfN(rapid.Byte(), 0, 80).Draw(rt, "payload")
		ok, back := deploy.VerifShiftChecksum(x, deploy.VerifUnshiftChecksum(x, payload))
		if !ok || !bytes.Equal(back, payload) {
			fail("C13: shift(unshift(x, %x)) = %v, %x", payload, ok, back)
		}
		y := mk("y")
		if rapid.Bool().Draw(rt, "nearMiss") {
			y = x
			y.Nonce ^= 1 << uint(rapid.IntRange(0, 31).Draw(rt, "flipBit"))
		}
		hx, hy := sha256.Sum256(deploy.VerifSharedBytes(x)), sha256.Sum256(deploy.VerifSharedBytes(y))
		collide := bytes.Equal(hx[:4], hy[:4])
		ok, _ = deploy.VerifShiftChecksum(y, deploy.VerifUnshiftChecksum(x, payload))
		if ok != collide {
			fail("C13: payload checksummed for %v is accepted=%v under %v (checksum prefixes collide: %v)", x, ok, y, collide)
		}
		short := rapid.SliceOfN(rapid.Byte(), 0, 3).Draw(rt, "short")
		if ok, _ := deploy.VerifShiftChecksum(x, short); ok {
			fail("C13: a %d-byte payload passed the checksum", len(short))
		}
		// matches
		tx := transaction.Transaction{Nonce: x.Nonce, ValidUntilBlock: x.ValidUntilBlock, Signers: []transaction.Signer{{Account: x.Sender}, {Account: y.Sender}}}
		if !deploy.VerifSharedTxDataMatches(&tx, x) {
			fail("C13: sharedTxDataMatches refuses the transaction built from the data")
		}
		switch rapid.IntRange(0, 3).Draw(rt, "mutateTx") {
		case 0:
			tx.Nonce++
		case 1:
			tx.ValidUntilBlock--
		case 2:
			tx.Signers[0], tx.Signers[1] = tx.Signers[1], tx.Signers[0]
			if y.Sender == x.Sender {
				tx.Signers = nil
			}
		case 3:
			tx.Signers = nil
		}
		if deploy.VerifSharedTxDataMatches(&tx, x) {
			fail("C13: sharedTxDataMatches accepts a transaction that differs from the shared data")
		}
		h.NonTrivial()
	})
}
