package props

import "strings"

// Independent reference predicates for C18, written from the statement of the
// property (not from the contract code).

func isLower(c byte) bool { return c >= 'a' && c <= 'z' }
func isDigit(c byte) bool { return c >= '0' && c <= '9' }
func isAlnum(c byte) bool { return isLower(c) || isDigit(c) }

// refLabel: 1..63 lowercase letters, digits and inner hyphens.
func refLabel(l string, max int) bool {
	if len(l) < 1 || len(l) > max {
		return false
	}
	for i := 0; i < len(l); i++ {
		c := l[i]
		if isAlnum(c) {
			continue
		}
		if c == '-' && i > 0 && i < len(l)-1 {
			continue
		}
		return false
	}
	return true
}

// refName: 3..255 bytes, dot-separated labels, last label at most 16 bytes and starting with a letter.
func refName(s string) bool {
	if len(s) < 3 || len(s) > 255 {
		return false
	}
	labels := strings.Split(s, ".")
	for i, l := range labels {
		if i == len(labels)-1 {
			if !refLabel(l, 16) || !isLower(l[0]) {
				return false
			}
		} else if !refLabel(l, 63) {
			return false
		}
	}
	return true
}

// refTLD: a valid name consisting of a single label.
func refTLD(s string) bool { return refName(s) && !strings.Contains(s, ".") }

// refIPv4: canonical dotted quad (digits only, no leading zeros) that is a
// public unicast address by the contract's documented exclusion list.
func refIPv4(s string) bool {
	parts := strings.Split(s, ".")
	if len(parts) != 4 {
		return false
	}
	var n [4]int
	for i, p := range parts {
		if len(p) < 1 || len(p) > 3 {
			return false
		}
		v := 0
		for j := 0; j < len(p); j++ {
			if !isDigit(p[j]) {
				return false
			}
			v = v*10 + int(p[j]-'0')
		}
		if v > 255 || (len(p) > 1 && p[0] == '0') {
			return false
		}
		n[i] = v
	}
	switch {
	case n[0] == 0, n[0] == 10, n[0] == 127, n[0] >= 224:
		return false
	case n[0] == 169 && n[1] == 254:
		return false
	case n[0] == 172 && n[1] >= 16 && n[1] <= 31:
		return false
	case n[0] == 192 && n[1] == 168:
		return false
	case n[3] == 0, n[3] == 255:
		return false
	}
	return true
}

func hexVal(c byte) int {
	switch {
	case c >= '0' && c <= '9':
		return int(c - '0')
	case c >= 'a' && c <= 'f':
		return int(c-'a') + 10
	case c >= 'A' && c <= 'F':
		return int(c-'A') + 10
	}
	return -1
}

// refIPv6Parse parses the RFC 4291 text form without embedded IPv4 and without
// zone: groups of 1..4 hex digits, at most one "::" standing for one or more
// zero groups.
func refIPv6Parse(s string) ([8]int, bool) {
	var res [8]int
	if strings.Count(s, "::") > 1 || strings.Contains(s, ":::") {
		return res, false
	}
	parseGroups := func(t string) ([]int, bool) {
		if t == "" {
			return nil, true
		}
		var out []int
		for _, g := range strings.Split(t, ":") {
			if len(g) < 1 || len(g) > 4 {
				return nil, false
			}
			v := 0
			for i := 0; i < len(g); i++ {
				h := hexVal(g[i])
				if h < 0 {
					return nil, false
				}
				v = v*16 + h
			}
			out = append(out, v)
		}
		return out, true
	}
	if i := strings.Index(s, "::"); i >= 0 {
		head, ok1 := parseGroups(s[:i])
		tail, ok2 := parseGroups(s[i+2:])
		if !ok1 || !ok2 || len(head)+len(tail) > 7 {
			return res, false
		}
		copy(res[:], head)
		copy(res[8-len(tail):], tail)
		return res, true
	}
	g, ok := parseGroups(s)
	if !ok || len(g) != 8 {
		return res, false
	}
	copy(res[:], g)
	return res, true
}

// refIPv6: a textual global-unicast address: 2000::/3 minus 2002::/16 (6to4),
// 3ffe::/16 (6bone) and, under 2001, everything below 2001:200:: and the
// documentation prefix 2001:db8::/32.
func refIPv6(s string) bool {
	g, ok := refIPv6Parse(s)
	if !ok {
		return false
	}
	f0 := g[0]
	if f0 < 0x2000 || f0 > 0x3fff || f0 == 0x2002 || f0 == 0x3ffe {
		return false
	}
	if f0 == 0x2001 && (g[1] < 0x200 || g[1] == 0xdb8) {
		return false
	}
	return true
}

// ipv6DontCare: forms the statement does not speak about (embedded IPv4, zone ids).
func ipv6DontCare(s string) bool { return strings.ContainsAny(s, ".%") }
