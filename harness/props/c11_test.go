package props

import (
	"fmt"
	"testing"

	"github.com/nspcc-dev/neo-go/pkg/neotest"
	"github.com/nspcc-dev/neo-go/pkg/util"
	"pgregory.net/rapid"

	"verif/harness/chainkit"
	"verif/harness/ev"
)

// c11Attempt is one (method, signer) attempt evaluated against the authorisation model.
type c11Attempt struct {
	method  string
	args    []any
	allowed bool
	// refusal may be a HALT(false) for transfer; everything else must FAULT
	falseOK bool
	desc    string
}

// c11Attempts builds every mutating method's attempt on name for a signer set.
func c11Attempts(r *nnsRun, name string, signer neotest.SingleSigner, extra []neotest.Signer, stranger util.Uint160, salt int) []c11Attempt {
	m := r.m
	now := int64(r.c.Now()) + 1
	signers := append([]neotest.Signer{}, extra...)
	var self util.Uint160
	if signer != nil {
		signers = append(signers, signer)
		self = signer.ScriptHash()
	}
	ws := r.witnesses(who{signers: signers})
	n := m.names[name]
	alive := m.chainAlive(name, now)
	adminOK := n != nil && alive && n.isAdmin(ws)
	var res []c11Attempt
	add := func(method string, allowed, falseOK bool, args ...any) {
		res = append(res, c11Attempt{method: method, args: args, allowed: allowed, falseOK: falseOK, desc: fmt.Sprintf("%s%v", method, shortArgs(args))})
	}
	if n != nil && !n.tld {
		add("addRecord", adminOK, false, name, recTXT, fmt.Sprintf("new-%d", salt))
		add("addRecord", adminOK, false, "sub-unregistered."+name, recTXT, fmt.Sprintf("new-sub-%d", salt))
		add("setRecord", adminOK, false, name, recTXT, int64(0), fmt.Sprintf("replaced-%d", salt))
		add("deleteRecords", adminOK, false, name, recTXT)
		// a type of which the name holds no record: "removal of nothing" still touches the name (SOA serial) and needs the same right
		add("deleteRecords", adminOK, false, name, recAAAA)
		add("deleteRecords", adminOK, false, "sub-unregistered."+name, recA)
		add("transfer", alive && ws.has(n.owner), true, stranger, name, nil)
		if signer != nil {
			// the signer proposes itself as admin (so the new admin's witness is present): only the owner may
			add("setAdmin", alive && ws.has(n.owner), false, name, self)
			// and registers a sub-name for itself: needs owner/admin of the directly enclosing name
			add("register", adminOK, false, fmt.Sprintf("n%d.%s", salt, name), self, "m@nspcc.io", int64(1), int64(1), int64(1000), int64(1))
		}
	}
	if n != nil {
		add("updateSOA", adminOK, false, name, "new@nspcc.io", int64(2), int64(3), int64(4), int64(5))
		add("renew", adminOK && (n.tld || n.exp+msPerYear <= now+tenYearsMs), false, name, int64(1))
	}
	return res
}

func shortArgs(args []any) string {
	s := "("
	for i, a := range args {
		if i > 0 {
			s += ","
		}
		switch v := a.(type) {
		case string:
			s += v
		case util.Uint160:
			s += v.StringLE()[:6]
		default:
			s += fmt.Sprint(v)
		}
	}
	return s + ")"
}

func TestC11Stateful(t *testing.T) {
	theT = t
	col := ev.New("C11", "stateful",
		"rapid: ownership histories (register at levels 2 and 3, transfer, setAdmin, renew; all by authorised signers) over 6 users; after every step, for every registered name and every role {owner, admin, former owner, former admin, parent owner, parent admin, stranger, committee, nobody} the full matrix of mutating methods {addRecord (name and an unregistered sub-name), setRecord, deleteRecords (of a type with records, of a type without any, of an unregistered sub-name), updateSOA, renew, transfer, setAdmin, register of a sub-name} is evaluated by test invocation against the authorisation model: forbidden => FAULT (or false without any storage change for transfer), permitted => HALT; registerTLD/setPrice/update need the committee majority n/2+1 (committees of 1, 3 and 4 keys; a single member, n/2 of n and the 2n/3+1 account are refused); level-2 register needs only the new owner's witness - also for the take-over of an expired name (stranger, former owner, another user, committee alone refused); setAdmin needs owner AND new admin (also when the proposed admin is a deployed contract or the NNS contract itself); one forbidden attempt per step is also committed and must leave the NNS storage unchanged; non-trivial = the matrix was evaluated in a state with a former owner or former admin and a level-3 name whose parent has a different owner",
		"all names but one (lapsed.com, expired from the start) are unexpired (expiry is C10)", "update's positive case is decided in C16")
	runRapid(t, col, func(rt *rapid.T, h *ev.History) {
		n := rapid.SampledFrom([]int{1, 1, 3, 4}).Draw(rt, "n")
		drawValidators(rt, h, n)
		w := newNnsWorld(n, h)
		defer w.close()
		r := newNnsRun(w, "C11")
		var users []neotest.SingleSigner
		for i := 0; i < 6; i++ {
			u := chainkit.NamedUser(fmt.Sprintf("c11-user-%d", i))
			users = append(users, u)
			w.names[u.ScriptHash()] = fmt.Sprintf("p%d", i)
		}
		stranger := chainkit.NamedUser("c11-stranger")
		w.names[stranger.ScriptHash()] = "stranger"
		committee := who{signers: w.committee, desc: "committee"}
		byHash := func(b []byte) neotest.SingleSigner {
			for _, u := range users {
				if string(u.ScriptHash().BytesBE()) == string(b) {
					return u
				}
			}
			return nil
		}
		r.opRegisterTLD(committee, 1, "com", hundredYearsSec)
		// a name whose registration has run out (its TLD lives on): taking it over is a registration like
		// any other - the owner-to-be must witness, whoever held the name before
		lapsedOwner := chainkit.NamedUser("c11-lapsed-owner")
		if o := r.c.Invoke([]neotest.Signer{lapsedOwner}, w.nns, "register", "lapsed.com", lapsedOwner.ScriptHash(), "m@nspcc.io", int64(1), int64(1), int64(1), int64(1)); !o.Halt {
			panic(chainkit.HarnessError{Msg: "c11: registration of lapsed.com: " + o.Fault})
		}
		r.c.AddBlock(5000)
		formerOwner := map[string][]byte{}
		formerAdmin := map[string][]byte{}
		yearSec := int64(365 * 24 * 3600)
		ownerWho := func(name string) who {
			nm := r.m.names[name]
			if nm == nil || len(nm.owner) == 0 {
				return committee
			}
			return who{signers: []neotest.Signer{byHash(nm.owner)}, desc: w.names[byHash(nm.owner).ScriptHash()]}
		}
		names := []string{"a.com", "b.com", "s.a.com", "t.a.com", "s.b.com"}
		salt := 0
		steps := rapid.IntRange(1, 12).Draw(rt, "steps")
		for s := 0; s < steps; s++ {
			// ---- evolve ownership with an authorised operation
			name := rapid.SampledFrom(names).Draw(rt, "name")
			nm := r.m.names[name]
			kind := "register"
			if nm != nil {
				kind = rapid.SampledFrom([]string{"transfer", "transfer", "setAdmin", "setAdmin", "renew"}).Draw(rt, "kind")
			}
			switch kind {
			case "register":
				owner := rapid.SampledFrom(users).Draw(rt, "owner")
				wh := who{signers: []neotest.Signer{owner}, desc: w.names[owner.ScriptHash()]}
				if levelOf(name) > 2 {
					if r.m.names[parentOf(name)] == nil {
						// register the parent first
						po := rapid.SampledFrom(users).Draw(rt, "parentOwner")
						r.opRegister(who{signers: []neotest.Signer{po}, desc: w.names[po.ScriptHash()]}, 1, parentOf(name), po.ScriptHash(), yearSec)
						r.c.Invoke([]neotest.Signer{po}, w.nns, "addRecord", parentOf(name), recTXT, "initial")
					}
					pw := ownerWho(parentOf(name))
					wh.signers = append(wh.signers, pw.signers...)
					wh.desc += "+" + pw.desc
				}
				r.opRegister(wh, 1, name, owner.ScriptHash(), yearSec)
				if o := r.c.Invoke([]neotest.Signer{owner}, w.nns, "addRecord", name, recTXT, "initial"); !o.Halt {
					fail("C11 harness: initial record: %s", o)
				}
			case "transfer":
				to := rapid.SampledFrom(users).Draw(rt, "to")
				prevOwner, prevAdmin := nm.owner, nm.admin
				r.opTransfer(ownerWho(name), 1, name, to.ScriptHash())
				if string(prevOwner) != string(to.ScriptHash().BytesBE()) {
					formerOwner[name] = prevOwner
					if prevAdmin != nil {
						formerAdmin[name] = prevAdmin
					}
					h.Mark("ownership-changed")
				}
			case "setAdmin":
				adm := rapid.SampledFrom(users).Draw(rt, "admin")
				wh := ownerWho(name)
				wh.signers = append(wh.signers, adm)
				if nm.admin != nil && string(nm.admin) != string(adm.ScriptHash().BytesBE()) {
					formerAdmin[name] = nm.admin
				}
				a := adm.ScriptHash()
				r.opSetAdmin(wh, 1, name, &a)
			case "renew":
				r.opRenew(ownerWho(name), 1, name, 1)
			}

			// ---- evaluate the matrix
			cur := r.c.Storage(w.nns)
			type roleT struct {
				name   string
				signer neotest.SingleSigner
				extra  []neotest.Signer
			}
			var forbidden []struct {
				a       c11Attempt
				signers []neotest.Signer
				role    string
			}
			for _, nmName := range append([]string{"com"}, names...) {
				cn := r.m.names[nmName]
				if cn == nil {
					continue
				}
				roles := []roleT{{"stranger", stranger, nil}, {"committee", nil, w.committee}, {"nobody", nil, nil}}
				if len(cn.owner) > 0 {
					roles = append(roles, roleT{"owner", byHash(cn.owner), nil})
				}
				if cn.admin != nil {
					roles = append(roles, roleT{"admin", byHash(cn.admin), nil})
				}
				if fo := formerOwner[nmName]; fo != nil {
					roles = append(roles, roleT{"former-owner", byHash(fo), nil})
					h.Mark("matrix-with-former-owner")
				}
				if fa := formerAdmin[nmName]; fa != nil {
					roles = append(roles, roleT{"former-admin", byHash(fa), nil})
					h.Mark("matrix-with-former-admin")
				}
				if p := r.m.names[parentOf(nmName)]; p != nil && len(p.owner) > 0 {
					roles = append(roles, roleT{"parent-owner", byHash(p.owner), nil})
					if string(p.owner) != string(cn.owner) {
						h.Mark("matrix-level3-different-parent-owner")
					}
					if p.admin != nil {
						roles = append(roles, roleT{"parent-admin", byHash(p.admin), nil})
					}
				}
				for _, role := range roles {
					salt++
					for _, a := range c11Attempts(r, nmName, role.signer, role.extra, stranger.ScriptHash(), salt) {
						signers := append([]neotest.Signer{}, role.extra...)
						if role.signer != nil {
							signers = append(signers, role.signer)
						}
						o, st := r.c.CallState(signers, w.nns, chainkit.Script(w.nns, a.method, a.args...))
						col.Count("attempt:"+a.method, 1)
						if a.allowed {
							ok := o.Halt
							if a.falseOK {
								b, isb := o.Bool()
								ok = o.Halt && isb && b
							}
							if !ok {
								fail("C11: %s on %s by its %s must succeed, got %s", a.desc, nmName, role.name, o)
							}
							col.Count("permitted", 1)
							continue
						}
						col.Count("forbidden", 1)
						if o.Halt {
							b, isb := o.Bool()
							if !(a.falseOK && isb && !b) {
								fail("C11: %s on %s by %s (not authorised) succeeded: %s", a.desc, nmName, role.name, o)
							}
							if !sameRaw(cur, st) {
								fail("C11: refused %s on %s by %s changed the NNS storage", a.desc, nmName, role.name)
							}
						}
						forbidden = append(forbidden, struct {
							a       c11Attempt
							signers []neotest.Signer
							role    string
						}{a, signers, role.name + " of " + nmName})
					}
				}
			}
			// ---- committee-only and level-2 rules
			type comRole struct {
				name    string
				signers []neotest.Signer
				com     bool
			}
			comRoles := []comRole{{"committee", w.committee, true}, {"stranger", []neotest.Signer{stranger}, false}, {"a user", []neotest.Signer{users[0]}, false}, {"one committee member", []neotest.Signer{w.c.Member(0)}, false}}
			if w.c.N >= 2 {
				comRoles = append(comRoles, comRole{fmt.Sprintf("one signature short of the majority (%d of %d)", w.c.N/2, w.c.N), []neotest.Signer{w.c.MultisigOf(w.c.N / 2)}, false})
			}
			if w.c.Alphabet.ScriptHash() != w.c.Committee.ScriptHash() {
				comRoles = append(comRoles, comRole{"the Alphabet 2n/3+1 account (not the committee's)", []neotest.Signer{w.c.Alphabet}, false})
			}
			for _, role := range comRoles {
				for _, a := range []c11Attempt{
					{method: "registerTLD", args: []any{"neworg", "e@nspcc.io", int64(1), int64(1), int64(1000), int64(1)}},
					{method: "setPrice", args: []any{int64(5)}},
				} {
					o := r.c.Call(role.signers, w.nns, a.method, a.args...)
					if o.Halt != role.com {
						fail("C11: %s by %s: committee witness=%v but got %s", a.method, role.name, role.com, o)
					}
				}
				if !role.com {
					cc := chainkit.Contract("nns")
					if o := r.c.Call(role.signers, w.nns, "update", cc.NEFBytes, string(cc.ManBytes), nil); o.Halt {
						fail("C11: update by %s succeeded", role.name)
					}
				}
			}
			// second level: anyone, on behalf of an owner who witnesses
			free := fmt.Sprintf("free%d.com", s)
			if o := r.c.Call([]neotest.Signer{stranger}, w.nns, "register", free, stranger.ScriptHash(), "m@nspcc.io", int64(1), int64(1), int64(1000), int64(1)); !o.Halt {
				fail("C11: second-level registration by a stranger for itself failed: %s", o)
			}
			if o := r.c.Call([]neotest.Signer{stranger}, w.nns, "register", free, users[0].ScriptHash(), "m@nspcc.io", int64(1), int64(1), int64(1000), int64(1)); o.Halt {
				fail("C11: second-level registration on behalf of an owner who did not witness succeeded: %s", o)
			}
			// an expired name: the same rule
			for _, who := range []struct {
				name    string
				signers []neotest.Signer
				ok      bool
			}{{"a stranger alone", []neotest.Signer{stranger}, false}, {"the former owner alone", []neotest.Signer{lapsedOwner}, false}, {"another user alone", []neotest.Signer{users[1]}, false}, {"the committee alone", w.committee, false},
				{"the owner-to-be", []neotest.Signer{users[0]}, true}, {"a stranger together with the owner-to-be", []neotest.Signer{stranger, users[0]}, true}} {
				o := r.c.Call(who.signers, w.nns, "register", "lapsed.com", users[0].ScriptHash(), "m@nspcc.io", int64(1), int64(1), int64(1000), int64(1))
				b, isb := o.Bool()
				if got := o.Halt && isb && b; got != who.ok {
					fail("C11: take-over of the expired name lapsed.com for u0 by %s: expected success=%v, got %s", who.name, who.ok, o)
				}
			}
			h.Mark("expired-name-takeover-matrix")
			// setAdmin without the new admin's witness
			for _, nmName := range names {
				if cn := r.m.names[nmName]; cn != nil {
					if o := r.c.Call([]neotest.Signer{byHash(cn.owner)}, w.nns, "setAdmin", nmName, stranger.ScriptHash()); o.Halt && string(cn.owner) != string(stranger.ScriptHash().BytesBE()) {
						fail("C11: setAdmin(%s) without the new admin's witness succeeded", nmName)
					}
					// ... also when the proposed admin is a contract account (which signs nothing: it witnesses only what it
					// calls itself): a deployed third-party contract, and the NNS contract's own address
					for _, ch := range []util.Uint160{w.actor, w.nns} {
						if o := r.c.Call([]neotest.Signer{byHash(cn.owner)}, w.nns, "setAdmin", nmName, ch); o.Halt {
							fail("C11: setAdmin(%s, contract %s) by the owner alone succeeded: the proposed admin gave no witness", nmName, w.names[ch])
						}
					}
					h.Mark("setAdmin-to-a-contract-without-its-witness")
				}
			}
			// ---- commit one forbidden attempt: storage must stay as it is
			if len(forbidden) > 0 {
				f := forbidden[rapid.IntRange(0, len(forbidden)-1).Draw(rt, "commitForbidden")]
				pre := r.c.Storage(w.nns)
				o := r.c.Invoke(f.signers, w.nns, f.a.method, f.a.args...)
				h.Op("committed forbidden attempt %s by %s -> %s", f.a.desc, f.role, o)
				if o.Halt {
					if b, isb := o.Bool(); !(f.a.falseOK && isb && !b) {
						fail("C11: committed forbidden %s by %s succeeded: %s", f.a.desc, f.role, o)
					}
				}
				if !sameRaw(pre, r.c.Storage(w.nns)) {
					fail("C11: committed forbidden %s by %s changed the NNS storage", f.a.desc, f.role)
				}
			}
		}
		if (h.Has("matrix-with-former-owner") || h.Has("matrix-with-former-admin")) && h.Has("matrix-level3-different-parent-owner") {
			h.NonTrivial()
		}
	})
}
