package props

import (
	"fmt"
	"sort"

	"github.com/nspcc-dev/neo-go/pkg/core/native/nativenames"
	"github.com/nspcc-dev/neo-go/pkg/crypto/keys"
	"github.com/nspcc-dev/neo-go/pkg/neotest"
	"github.com/nspcc-dev/neo-go/pkg/util"

	"verif/harness/chainkit"
	"verif/harness/ev"
)

// mainWorld is the main-chain fixture: NeoFS + Processing contracts.
type mainWorld struct {
	c       *chainkit.Chain
	neofs   util.Uint160
	proc    util.Uint160
	gas     util.Uint160
	h       *ev.History
	keys    []*keys.PrivateKey // Alphabet keys stored in the NeoFS contract (sorted)
	members []neotest.SingleSigner
	notary  bool
}

// newMainWorld deploys NeoFS with k stored Alphabet keys. In notary mode the
// contract relies on the chain committee, so the stored keys are the
// committee's; without notary they are k independent keys.
func newMainWorld(nChain, k int, notaryDisabled bool, h *ev.History, config ...any) *mainWorld {
	c := chainkit.NewChain(theT, nChain, chainkit.Options{})
	w := &mainWorld{c: c, h: h, notary: !notaryDisabled, gas: c.NativeHash(nativenames.Gas)}
	if notaryDisabled {
		for i := 0; i < k; i++ {
			w.keys = append(w.keys, chainkit.DetKey(fmt.Sprintf("main-alphabet-%d", i)))
		}
		sort.Slice(w.keys, func(i, j int) bool { return w.keys[i].PublicKey().Cmp(w.keys[j].PublicKey()) < 0 })
	} else {
		w.keys = c.Priv
	}
	arr := make([]any, len(w.keys))
	for i, kk := range w.keys {
		arr[i] = kk.PublicKey().Bytes()
		w.members = append(w.members, neotest.NewSingleSigner(walletOf(kk)))
	}
	procC := chainkit.Contract("processing")
	w.proc = procC.HashFor(c.Committee.ScriptHash())
	o, hN := c.DeployWith(c.Both(), chainkit.Contract("neofs"), []any{notaryDisabled, w.proc, arr, config})
	if !o.Halt {
		panic(chainkit.HarnessError{Msg: "main fixture: deploy neofs: " + o.Fault})
	}
	w.neofs = hN
	o, hP := c.DeployWith(c.Both(), procC, []any{w.neofs})
	if !o.Halt || hP != w.proc {
		panic(chainkit.HarnessError{Msg: "main fixture: deploy processing: " + o.Fault})
	}
	return w
}

func (w *mainWorld) close() { w.c.Close() }

func (w *mainWorld) pubs() [][]byte {
	var res [][]byte
	for _, k := range w.keys {
		res = append(res, k.PublicKey().Bytes())
	}
	return res
}
