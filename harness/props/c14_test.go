package props

import (
	"bytes"
	"crypto/elliptic"
	"crypto/sha256"
	"fmt"
	"math/big"
	"testing"

	"github.com/nspcc-dev/neo-go/pkg/crypto/keys"
	"github.com/nspcc-dev/neo-go/pkg/neotest"
	"github.com/nspcc-dev/neo-go/pkg/vm/stackitem"
	"pgregory.net/rapid"

	"verif/harness/chainkit"
	"verif/harness/ev"
)

// rosterModel: pending and committed rosters per container.
type rosterModel struct {
	pending map[string]map[int][][]byte
	current map[string]map[int][][]byte
	reps    map[string][]int
}

func synthKey(i int) []byte {
	k := make([]byte, 33)
	k[0] = 0x02
	h := sha256.Sum256([]byte(fmt.Sprintf("synthetic-node-key-%d", i)))
	copy(k[1:], h[:])
	return k
}

func bytesList(o *chainkit.Outcome) ([]string, bool) {
	arr, ok := o.Array()
	if !ok {
		return nil, false
	}
	res := make([]string, len(arr))
	for i := range arr {
		res[i] = chainkit.ItemString(arr[i])
	}
	return res, true
}

func TestC14Roster(t *testing.T) {
	theT = t
	col := ev.New("C14", "roster",
		"rapid state machine over addNextEpochNodes (batch sizes 1,2,3,100,126,127,128,129,200 so that the per-vector counter crosses 127/255/256; wrong key lengths; vector gaps; missing Alphabet) and commitContainerListUpdate (REP lists, empty commits, re-commits) on two containers; after every step nodes(cid,i) for i=0..maxVector+1 and replicasNumbers(cid) are compared IN ORDER with the roster model and the raw pending keys must equal the model's pending roster; non-trivial = a committed vector longer than 127 keys or a re-commit replacing a non-empty roster",
		"keys are opaque 33-byte strings for the roster (the contract does not parse them)")
	runRapid(t, col, func(rt *rapid.T, h *ev.History) {
		w := newCntWorld(rapid.SampledFrom([]int{1, 1, 3}).Draw(rt, "n"), h, 0, 0)
		defer w.close()
		m := &rosterModel{pending: map[string]map[int][][]byte{}, current: map[string]map[int][][]byte{}, reps: map[string][]int{}}
		cids := [][]byte{detBytes("cid-A", 32), detBytes("cid-B", 32)}
		for _, c := range cids {
			m.pending[string(c)] = map[int][][]byte{}
			m.current[string(c)] = map[int][][]byte{}
		}
		keyNo := 0
		compare := func(what string) {
			for _, cid := range cids {
				for v := 0; v <= 4; v++ {
					o := w.c.Call(nil, w.cnt, "nodes", cid, v)
					got, ok := bytesList(o)
					if !ok {
						fail("C14: nodes(%x,%d) failed: %s (%s)", cid[:5], v, o, what)
					}
					want := m.current[string(cid)][v]
					if len(got) != len(want) {
						fail("C14: nodes(%s,%d) returns %d keys, committed %d (%s)", cid[:5], v, len(got), len(want), what)
					}
					for i := range want {
						if got[i] != "x"+hex(want[i]) {
							fail("C14: nodes(%s,%d)[%d] = %s, committed %x (order or content differs) (%s)", cid[:5], v, i, got[i], want[i], what)
						}
					}
				}
				o := w.c.Call(nil, w.cnt, "replicasNumbers", cid)
				arr, ok := o.Array()
				if !ok {
					fail("C14: replicasNumbers failed: %s", o)
				}
				want := m.reps[string(cid)]
				if len(arr) != len(want) {
					fail("C14: replicasNumbers(%s) has %d entries, committed %d (%s)", cid[:5], len(arr), len(want), what)
				}
				for i := range want {
					if chainkit.ItemInt(arr[i]) != int64(want[i]) {
						fail("C14: replicasNumbers(%s)[%d] = %d, committed %d (%s)", cid[:5], i, chainkit.ItemInt(arr[i]), want[i], what)
					}
				}
			}
			// pending roster in raw storage
			raw := w.c.Storage(w.cnt)
			cnt := map[string]int{}
			for k := range raw {
				if len(k) == 1+32+1+2 && k[0] == 'u' {
					cnt[k[1:33]]++
				}
			}
			for _, cid := range cids {
				want := 0
				for _, ks := range m.pending[string(cid)] {
					want += len(ks)
				}
				if cnt[string(cid)] != want {
					fail("C14: %d pending roster keys in storage for %s, model has %d (%s)", cnt[string(cid)], cid[:5], want, what)
				}
			}
		}
		steps := rapid.IntRange(1, 16).Draw(rt, "steps")
		for s := 0; s < steps; s++ {
			cid := rapid.SampledFrom(cids).Draw(rt, "cid")
			withAlpha := rapid.IntRange(0, 9).Draw(rt, "noAlpha") != 0
			signers := w.alpha
			if !withAlpha {
				signers = deficientSigners(rt, w.c, w.owners[0])
			}
			if rapid.IntRange(0, 3).Draw(rt, "isCommit") == 0 {
				nrep := rapid.IntRange(0, 4).Draw(rt, "nrep")
				reps := make([]any, nrep)
				repsI := make([]int, nrep)
				for i := range reps {
					repsI[i] = rapid.SampledFrom([]int{1, 2, 3, 4, 255}).Draw(rt, "rep")
					reps[i] = repsI[i]
				}
				o := w.c.Invoke(signers, w.cnt, "commitContainerListUpdate", cid, reps)
				h.Op("commit(%s, reps=%v) alphabet=%v -> %s", cid[:5], repsI, withAlpha, o)
				if withAlpha != o.Halt {
					fail("C14: commit alphabet=%v: %s", withAlpha, o)
				}
				if o.Halt {
					replaced := false
					for _, ks := range m.current[string(cid)] {
						if len(ks) > 0 {
							replaced = true
						}
					}
					if replaced {
						h.Mark("re-commit")
					}
					for _, ks := range m.pending[string(cid)] {
						if len(ks) > 127 {
							h.Mark("long-vector-committed")
						}
						if len(ks) > 255 {
							h.Mark("vector-over-255-committed")
						}
					}
					m.current[string(cid)] = m.pending[string(cid)]
					m.pending[string(cid)] = map[int][][]byte{}
					m.reps[string(cid)] = repsI
					if len(chainkit.EventsNamed(o.Events, "NodesUpdate")) != 1 {
						fail("C14: commit emitted %d NodesUpdate notifications", len(chainkit.EventsNamed(o.Events, "NodesUpdate")))
					}
				}
			} else {
				vec := rapid.IntRange(0, 3).Draw(rt, "vector")
				size := rapid.SampledFrom([]int{1, 2, 3, 100, 126, 127, 128, 129, 200}).Draw(rt, "batch")
				badKey := rapid.IntRange(0, 11).Draw(rt, "badKey") == 0
				batch := make([]any, size)
				raw := make([][]byte, size)
				for i := range batch {
					keyNo++
					raw[i] = synthKey(keyNo)
					batch[i] = raw[i]
				}
				if badKey {
					batch[size-1] = raw[size-1][:32]
				} else if pend := m.pending[string(cid)][vec]; len(pend) > 0 && size <= 3 && rapid.IntRange(0, 2).Draw(rt, "endsWithThePendingTail") == 0 {
					// a batch that ends with the key the pending vector already ends with (and, sometimes, repeats it
					// whole): every submitted key counts, in order, whatever it looks like
					raw[size-1] = pend[len(pend)-1]
					batch[size-1] = raw[size-1]
					if size >= 2 && len(pend) >= 2 && rapid.Bool().Draw(rt, "repeatsTheTailPair") {
						raw[size-2] = pend[len(pend)-2]
						batch[size-2] = raw[size-2]
					}
					h.Mark("batch-ending-with-the-pending-tail")
				}
				o := w.c.Invoke(signers, w.cnt, "addNextEpochNodes", cid, vec, batch)
				h.Op("add(%s, vector %d, %d keys, badKey=%v) alphabet=%v -> %s", cid[:5], vec, size, badKey, withAlpha, o)
				contiguous := vec == 0 || len(m.pending[string(cid)][vec-1]) > 0
				want := withAlpha && contiguous && !badKey
				if want != o.Halt {
					fail("C14: add to vector %d (contiguous=%v badKey=%v alphabet=%v): %s", vec, contiguous, badKey, withAlpha, o)
				}
				if o.Halt {
					m.pending[string(cid)][vec] = append(m.pending[string(cid)][vec], raw...)
				}
			}
			compare(fmt.Sprintf("step %d", s))
		}
		if h.Has("long-vector-committed") || h.Has("re-commit") {
			h.NonTrivial()
		}
	})
}

// ---------------------------------------------------------------------------
// signatures

type sigWorld struct {
	*cntWorld
	blob     *cntBlob
	members  [][]*keys.PrivateKey // per vector
	reps     []int
	outsider *keys.PrivateKey
}

func malleate(sig []byte) []byte {
	n := elliptic.P256().Params().N
	s := new(big.Int).SetBytes(sig[32:])
	s.Sub(n, s)
	out := append([]byte{}, sig[:32]...)
	sb := s.Bytes()
	pad := make([]byte, 32-len(sb))
	return append(append(out, pad...), sb...)
}

// reference verifier of C14: REP_i distinct members of vector i with a valid signature of msg in sigs[i].
func (w *sigWorld) reference(msg []byte, sigs [][][]byte) bool {
	h := sha256.Sum256(msg)
	for i, rep := range w.reps {
		if i >= len(sigs) {
			return false
		}
		distinct := 0
		for _, mk := range w.members[i] {
			ok := false
			for _, s := range sigs[i] {
				if len(s) == 64 && mk.PublicKey().Verify(s, h[:]) {
					ok = true
				}
			}
			if ok {
				distinct++
			}
		}
		if distinct < rep {
			return false
		}
	}
	return true
}

func sigsArg(sigs [][][]byte) []any {
	res := make([]any, len(sigs))
	for i := range sigs {
		v := make([]any, len(sigs[i]))
		for j := range sigs[i] {
			v[j] = sigs[i][j]
		}
		res[i] = v
	}
	return res
}

func TestC14Signatures(t *testing.T) {
	theT = t
	col := ev.New("C14", "signatures",
		"rapid: a meta-enabled container with 1..3 placement vectors of 2..5 real member keys and REP 1..4 is committed; signature matrices are generated per vector from {valid member signature, the same member again, a malleated (r,n-s) copy of a member's signature, a non-member's valid signature, a member of another vector, a member's signature of another message, 64 garbage bytes}, short and long matrices, and submissions of a non-minimal re-encoding of the signed meta map (same map, other bytes: must be refused); oracle: contract true => reference verifier (REP_i DISTINCT members with a valid signature of msg among sigs[i]) true; honest matrices (REP_i distinct members, REP_i <= |vector|) => contract true; submitObjectPut HALT => reference true and exactly one ObjectPut, honest => HALT; non-trivial = matrix with a duplicate/malleated/foreign element or a short matrix",
		"REP >= 1 (as produced from placement policies)")
	runRapid(t, col, func(rt *rapid.T, h *ev.History) {
		w := &sigWorld{cntWorld: newCntWorld(1, h, 0, 0)}
		defer w.close()
		w.blob = w.mkBlob(0, 0, 7, "")
		pub := w.owners[0].Account().PublicKey().Bytes()
		if o := w.c.Invoke(w.alpha, w.cnt, "put", w.blob.value, detBytes("sig", 64), pub, []byte{}, true); !o.Halt {
			fail("C14 harness: put: %s", o)
		}
		nvec := rapid.IntRange(1, 3).Draw(rt, "vectors")
		listedTwice := map[int]bool{}
		kn := 0
		repsArg := []any{}
		for v := 0; v < nvec; v++ {
			sz := rapid.IntRange(2, 5).Draw(rt, "members")
			var ms []*keys.PrivateKey
			batch := []any{}
			for i := 0; i < sz; i++ {
				kn++
				k := chainkit.DetKey(fmt.Sprintf("placement-%d", kn))
				ms = append(ms, k)
				batch = append(batch, k.PublicKey().Bytes())
			}
			w.members = append(w.members, ms)
			// one vector in four lists its first member once more at the end (a node re-sent by a later batch): it is
			// still one member, its signature counts once however often the key is listed
			if rapid.IntRange(0, 3).Draw(rt, "firstMemberListedTwice") == 0 {
				batch = append(batch, ms[0].PublicKey().Bytes())
				listedTwice[v] = true
				h.Mark("member-listed-twice-in-a-vector")
			}
			rep := rapid.IntRange(1, 4).Draw(rt, "rep")
			w.reps = append(w.reps, rep)
			repsArg = append(repsArg, rep)
			if o := w.c.Invoke(w.alpha, w.cnt, "addNextEpochNodes", w.blob.id, v, batch); !o.Halt {
				fail("C14 harness: add: %s", o)
			}
		}
		if o := w.c.Invoke(w.alpha, w.cnt, "commitContainerListUpdate", w.blob.id, repsArg); !o.Halt {
			fail("C14 harness: commit: %s", o)
		}
		w.outsider = chainkit.DetKey("placement-outsider")
		h.Op("vectors=%d members=%v reps=%v", nvec, lens(w.members), w.reps)

		// what the last commit fixed, for the read-back after every round
		checkRoster := func(what string) {
			for v := 0; v <= nvec; v++ {
				o := w.c.Call(nil, w.cnt, "nodes", w.blob.id, v)
				got, ok := bytesList(o)
				if !ok {
					fail("C14: nodes(cid,%d) failed %s: %s", v, what, o)
				}
				var want []string
				if v < nvec {
					for _, k := range w.members[v] {
						want = append(want, "x"+hex(k.PublicKey().Bytes()))
					}
					if listedTwice[v] {
						want = append(want, "x"+hex(w.members[v][0].PublicKey().Bytes()))
					}
				}
				if len(got) != len(want) {
					fail("C14: nodes(cid,%d) returns %d keys %s, the last commit fixed %d", v, len(got), what, len(want))
				}
				for i := range want {
					if got[i] != want[i] {
						fail("C14: nodes(cid,%d)[%d] differs from the committed key %s", v, i, what)
					}
				}
			}
			o := w.c.Call(nil, w.cnt, "replicasNumbers", w.blob.id)
			arr, ok := o.Array()
			if !ok || len(arr) != len(w.reps) {
				fail("C14: replicasNumbers(cid) = %s %s, the last commit fixed %v", o, what, w.reps)
			}
			for i, rp := range w.reps {
				if chainkit.ItemInt(arr[i]) != int64(rp) {
					fail("C14: replicasNumbers(cid)[%d] = %d %s, the last commit fixed %d", i, chainkit.ItemInt(arr[i]), what, rp)
				}
			}
		}
		checkRoster("right after the commit")
		deleted := false
		rounds := rapid.IntRange(1, 6).Draw(rt, "rounds")
		for r := 0; r < rounds; r++ {
			// things that happen to a container between two roster commits: none of them is a commit, so none of them
			// may change what nodes/replicasNumbers answer or what the signature check demands
			switch rapid.SampledFrom([]string{"", "", "", "", "pending", "eacl", "re-put", "delete"}).Draw(rt, "lifecycle") {
			case "pending":
				v := rapid.IntRange(0, nvec-1).Draw(rt, "pendingVector")
				{
					// the contract wants pending vectors to be filled from 0 upwards: add to every vector up to v
					for i := 0; i <= v; i++ {
						o := w.c.Invoke(w.alpha, w.cnt, "addNextEpochNodes", w.blob.id, i, []any{w.outsider.PublicKey().Bytes()})
						h.Op("addNextEpochNodes(vector %d, the outsider's key) without a commit -> %s", i, o)
					}
				}
				h.Mark("pending-roster-without-commit")
				checkRoster("after nodes were added to the pending roster (no commit)")
			case "eacl":
				if !deleted {
					o := w.c.Invoke(w.alpha, w.cnt, "setEACL", mkEACL(w.blob.id, 0, r), detBytes("esig", 64), detBytes("epub", 33), []byte{})
					h.Op("setEACL -> %s", o)
					checkRoster("after setEACL")
				}
			case "re-put":
				if !deleted {
					o := w.c.Invoke(w.alpha, w.cnt, "put", w.blob.value, detBytes("sig2", 64), pub, []byte{}, true)
					h.Op("put of the same container again -> %s", o)
					checkRoster("after a repeated put")
				}
			case "delete":
				if !deleted {
					o := w.c.Invoke(w.alpha, w.cnt, "delete", w.blob.id, detBytes("dsig", 64), []byte{})
					h.Op("delete of the container -> %s", o)
					if !o.Halt {
						fail("C14 harness: delete: %s", o)
					}
					deleted = true
					h.Mark("container-deleted-between-commits")
					checkRoster("after the container was deleted (not a commit)")
				}
			}
			// message: either free bytes (verifyPlacementSignatures) or object meta (submitObjectPut)
			useSubmit := rapid.Bool().Draw(rt, "submit")
			var msg []byte
			if useSubmit {
				msg = w.metaInfo(r)
			} else {
				msg = detBytes(fmt.Sprintf("message-%d", r), 40)
			}
			honest := rapid.IntRange(0, 3).Draw(rt, "honest") == 0
			nv := nvec
			if !honest {
				nv = rapid.SampledFrom([]int{nvec, nvec, nvec, nvec - 1, nvec + 1}).Draw(rt, "matrixVectors")
			}
			sigs := make([][][]byte, nv)
			desc := ""
			satisfiable := true
			for v := 0; v < nv; v++ {
				var row [][]byte
				if v >= nvec {
					row = append(row, w.outsider.Sign(msg))
					sigs[v] = row
					desc += " extra-vector"
					h.Mark("odd-element")
					continue
				}
				if honest {
					if w.reps[v] > len(w.members[v]) {
						satisfiable = false
					}
					for i := 0; i < w.reps[v] && i < len(w.members[v]); i++ {
						row = append(row, w.members[v][i].Sign(msg))
					}
					sigs[v] = row
					continue
				}
				cnt := rapid.IntRange(0, 6).Draw(rt, "rowLen")
				for i := 0; i < cnt; i++ {
					mi := rapid.IntRange(0, len(w.members[v])-1).Draw(rt, "member")
					el := rapid.SampledFrom([]string{"member", "member", "member", "same-again", "malleated", "non-member", "other-vector", "wrong-msg", "garbage"}).Draw(rt, "element")
					desc += fmt.Sprintf(" v%d:%s(%d)", v, el, mi)
					switch el {
					case "member":
						row = append(row, w.members[v][mi].Sign(msg))
					case "same-again":
						s := w.members[v][mi].Sign(msg)
						row = append(row, s, s)
						h.Mark("odd-element")
					case "malleated":
						s := w.members[v][mi].Sign(msg)
						row = append(row, s, malleate(s))
						h.Mark("odd-element")
					case "non-member":
						row = append(row, w.outsider.Sign(msg))
						h.Mark("odd-element")
					case "other-vector":
						ov := (v + 1) % nvec
						row = append(row, w.members[ov][mi%len(w.members[ov])].Sign(msg))
						if ov != v {
							h.Mark("odd-element")
						}
					case "wrong-msg":
						row = append(row, w.members[v][mi].Sign(append([]byte("x"), msg...)))
						h.Mark("odd-element")
					default:
						row = append(row, detBytes(fmt.Sprintf("garbage-%d", i), 64))
						h.Mark("odd-element")
					}
				}
				sigs[v] = row
			}
			if nv < nvec {
				h.Mark("short-matrix")
			}
			if useSubmit && rapid.IntRange(0, 3).Draw(rt, "reEncoded") == 0 {
				// the same meta map in another (non-minimal) encoding: nobody signed these bytes
				if alt := reEncode(msg); alt != nil {
					msg = alt
					honest = false
					desc += " [submitted in a non-minimal encoding of the signed map]"
					h.Mark("odd-element")
					h.Mark("re-encoded-message")
				}
			}
			ref := w.reference(msg, sigs)
			if useSubmit {
				o := w.c.Invoke([]neotest.Signer{w.owners[1]}, w.cnt, "submitObjectPut", msg, sigsArg(sigs))
				h.Op("submitObjectPut honest=%v matrix:%s reference=%v -> %s", honest, desc, ref, o)
				if o.Halt && !ref {
					fail("C14: submitObjectPut accepted a matrix without REP distinct member signatures per vector:%s (reps %v)", desc, w.reps)
				}
				if honest && satisfiable && !o.Halt && !deleted {
					fail("C14: submitObjectPut refused an honest matrix: %s", o)
				}
				n := len(chainkit.EventsNamed(o.Events, "ObjectPut"))
				if o.Halt && n != 1 || !o.Halt && n != 0 {
					fail("C14: submitObjectPut (%s) emitted %d ObjectPut notifications", o, n)
				}
			} else {
				o := w.c.Call(nil, w.cnt, "verifyPlacementSignatures", w.blob.id, msg, sigsArg(sigs))
				h.Op("verifyPlacementSignatures honest=%v matrix:%s reference=%v -> %s", honest, desc, ref, o)
				got, ok := o.Bool()
				if !o.Halt {
					got, ok = false, true // a fault is a refusal
				}
				if !ok {
					fail("C14: verifyPlacementSignatures returned %s", o)
				}
				if got && !ref {
					fail("C14: verifyPlacementSignatures accepted a matrix without REP distinct member signatures per vector:%s (reps %v)", desc, w.reps)
				}
				if honest && satisfiable && !got {
					fail("C14: verifyPlacementSignatures refused an honest matrix (reps %v members %v): %s", w.reps, lens(w.members), o)
				}
			}
			if ref {
				h.Mark("reference-true")
			} else {
				h.Mark("reference-false")
			}
		}
		if h.Has("odd-element") || h.Has("short-matrix") {
			h.NonTrivial()
		}
	})
}

func lens(m [][]*keys.PrivateKey) []int {
	r := make([]int, len(m))
	for i := range m {
		r[i] = len(m[i])
	}
	return r
}

// reEncode returns the serialized meta map with the one-byte integer of "size" padded to two bytes
// (7b -> 7b 00): it deserializes to the same map but is a different message.
func reEncode(msg []byte) []byte {
	key := []byte{0x28, 0x04, 's', 'i', 'z', 'e', 0x21, 0x01}
	i := bytes.Index(msg, key)
	if i < 0 || i+len(key) >= len(msg) || msg[i+len(key)] >= 0x80 {
		return nil
	}
	out := append([]byte{}, msg[:i+len(key)-1]...)
	out = append(out, 0x02, msg[i+len(key)], 0x00)
	return append(out, msg[i+len(key)+1:]...)
}

// metaInfo builds the serialized object meta map submitObjectPut expects.
func (w *sigWorld) metaInfo(salt int) []byte {
	mp := stackitem.NewMapWithValue([]stackitem.MapElement{
		{Key: stackitem.Make("cid"), Value: stackitem.NewByteArray(w.blob.id)},
		{Key: stackitem.Make("oid"), Value: stackitem.NewByteArray(detBytes(fmt.Sprintf("oid-%d", salt), 32))},
		{Key: stackitem.Make("network"), Value: stackitem.Make(int64(w.c.BC.GetConfig().Magic))},
		{Key: stackitem.Make("size"), Value: stackitem.Make(123 + salt)},
		{Key: stackitem.Make("deleted"), Value: stackitem.NewArray([]stackitem.Item{})},
		{Key: stackitem.Make("locked"), Value: stackitem.NewArray([]stackitem.Item{})},
		{Key: stackitem.Make("validuntil"), Value: stackitem.Make(int64(w.c.Height()) + 100)},
	})
	b, err := stackitem.Serialize(mp)
	if err != nil {
		panic(err)
	}
	return b
}

// TestC14RosterBoundaries enumerates vector sizes around the counter's byte boundaries.
func TestC14RosterBoundaries(t *testing.T) {
	theT = t
	col := ev.New("C14", "roster-boundaries",
		"complete enumeration: one vector filled to a total of {1,2,126,127,128,129,254,255,256,257,300} keys by two batches split at every point of {1,2,126,127,128,129,254,255,256} below the total (so that the 2-byte counter continues across 127/128 and 255/256 inside and between batches), committed, re-read in order, followed by a second smaller roster and an empty commit; non-trivial = total > 127")
	defer func() { col.Flush(true) }()
	totals := []int{1, 2, 126, 127, 128, 129, 254, 255, 256, 257, 300}
	splits := []int{1, 2, 126, 127, 128, 129, 254, 255, 256}
	for _, total := range totals {
		for _, sp := range append([]int{0}, splits...) {
			if sp >= total {
				continue
			}
			h := ev.NewHistory()
			h.Op("total=%d split=%d", total, sp)
			ok := runCase(t, col, h, func() {
				w := newCntWorld(1, h, 0, 0)
				defer w.close()
				cid := detBytes("cid-boundary", 32)
				var all [][]byte
				send := func(from, to int) {
					batch := []any{}
					for i := from; i < to; i++ {
						k := synthKey(1000 + i)
						all = append(all, k)
						batch = append(batch, k)
					}
					if o := w.c.Invoke(w.alpha, w.cnt, "addNextEpochNodes", cid, 0, batch); !o.Halt {
						fail("C14: addNextEpochNodes of %d keys failed: %s", to-from, o)
					}
				}
				if sp > 0 {
					send(0, sp)
				}
				send(sp, total)
				if o := w.c.Invoke(w.alpha, w.cnt, "commitContainerListUpdate", cid, []any{2}); !o.Halt {
					fail("C14: commit failed: %s", o)
				}
				check := func(want [][]byte, what string) {
					got, ok := bytesList(w.c.Call(nil, w.cnt, "nodes", cid, 0))
					if !ok || len(got) != len(want) {
						fail("C14: nodes() returns %d keys, %d were committed (%s)", len(got), len(want), what)
					}
					for i := range want {
						if got[i] != "x"+hex(want[i]) {
							fail("C14: nodes()[%d] differs from the %d-th submitted key (%s): submission order is not kept", i, i, what)
						}
					}
				}
				check(all, "first roster")
				// replace by a smaller roster, then clear
				first := all
				all = nil
				send2 := synthKey(5000)
				if o := w.c.Invoke(w.alpha, w.cnt, "addNextEpochNodes", cid, 0, []any{send2}); !o.Halt {
					fail("C14: second add failed: %s", o)
				}
				if o := w.c.Invoke(w.alpha, w.cnt, "commitContainerListUpdate", cid, []any{1}); !o.Halt {
					fail("C14: second commit failed: %s", o)
				}
				check([][]byte{send2}, fmt.Sprintf("second roster after one of %d keys", len(first)))
				if o := w.c.Invoke(w.alpha, w.cnt, "commitContainerListUpdate", cid, []any{}); !o.Halt {
					fail("C14: empty commit failed: %s", o)
				}
				check(nil, "empty commit")
				if total > 127 {
					h.NonTrivial()
				}
			})
			if !ok {
				return
			}
		}
	}
	col.SetExhaustive(true)
}
