package props

import (
	"bytes"
	"encoding/json"
	"fmt"
	"sort"
	"strings"
	"testing"

	"github.com/nspcc-dev/neo-go/pkg/neotest"
	"github.com/nspcc-dev/neo-go/pkg/smartcontract/manifest"
	"pgregory.net/rapid"

	"verif/harness/chainkit"
	"verif/harness/ev"
)

// c03Pool lists the replacement values for an argument of the given manifest
// type. The pools never contain the stranger, a committee member's key or a
// multisignature account, so no generated tuple can name a key the deficient
// signer classes hold.
func c03Pool(e *c03Env, typ string, base any) []any {
	pubs := [][]byte{e.u0.Account().PublicKey().Bytes(), e.u1.Account().PublicKey().Bytes(), e.u2.Account().PublicKey().Bytes(),
		e.node.Account().PublicKey().Bytes(), e.cand.Account().PublicKey().Bytes(), e.ir[0].PublicKey().Bytes(), synthKey(77)}
	hashes := [][]byte{e.u0.ScriptHash().BytesBE(), e.u1.ScriptHash().BytesBE(), e.u2.ScriptHash().BytesBE(), e.h["container"].BytesBE(), e.h["balance"].BytesBE(), make([]byte, 20), e.u1.ScriptHash().BytesBE()[:19], append(e.u2.ScriptHash().BytesBE(), 7)}
	blobs := [][]byte{{}, e.blob.id, e.blob.value, e.blob2.id, e.blob2.value, mkEACL(e.blob2.id, 0, 2), ownerID(e.u0.ScriptHash()), ownerID(e.u1.ScriptHash()), detBytes("none", 32), make([]byte, 32), []byte("k"), []byte("id"),
		mkEACL(e.blob.id, 0, 1), legacyInfo(e.node.Account().PublicKey().Bytes(), 1), legacyInfo(e.u1.Account().PublicKey().Bytes(), 2)}
	// every deployed contract's own address (an account nobody can witness - but a contract can, for itself)
	var contractNames []string
	for name := range e.h {
		contractNames = append(contractNames, name)
	}
	sort.Strings(contractNames)
	var contractHashes [][]byte
	for _, name := range contractNames {
		contractHashes = append(contractHashes, e.h[name].BytesBE())
	}
	var out []any
	add := func(pool [][]byte) {
		for _, b := range pool {
			out = append(out, b)
		}
	}
	switch typ {
	case "Integer":
		for _, v := range []int64{0, -1, 1, 2, 3, 4, 7, 1 << 31, -(1 << 40), 1000} {
			out = append(out, v)
		}
	case "Boolean":
		out = append(out, true, false)
	case "String":
		for _, v := range []string{"", "c03.neofs", "neofs", "x.c03.neofs", "other.neofs", "new.neofs", "c03name", "container", "newtld", "C03.NEOFS", "m@nspcc.io"} {
			out = append(out, v)
		}
	case "Hash160":
		add(hashes)
		add(contractHashes)
	case "PublicKey":
		add(pubs)
	case "Hash256":
		add([][]byte{e.blob.id, detBytes("none", 32), make([]byte, 32)})
	case "Array":
		out = append(out, []any{}, []any{pubs[0]}, []any{pubs[1]}, []any{pubs[3]}, []any{pubs[0], pubs[1]}, []any{pubs[6]}, []any{int64(0)}, []any{int64(1)}, []any{int64(2)})
		if b, ok := base.([]any); ok {
			out = append(out, append(append([]any{}, b...), b...))
		}
	default: // ByteArray, Any, Signature, ...
		add(blobs)
		add(pubs)
		add(hashes)
	}
	if typ != "Integer" && typ != "Boolean" {
		// the Null item: what an SDK sends for a missing value; the one ill-formed address a Hash160 notification admits
		out = append(out, nil)
	}
	return out
}

// c03Holds reports whether a replacement value names something the signers of
// the class hold: their own account or key (also inside a longer byte string
// or an array), or - for the multisignature accounts - a top-level domain,
// which the committee owns. Such a tuple would not be deficient any more.
func c03Holds(cl c03Class, v any) bool {
	switch x := v.(type) {
	case []any:
		for _, y := range x {
			if c03Holds(cl, y) {
				return true
			}
		}
	case string:
		if !strings.Contains(x, ".") {
			for _, s := range cl.signers {
				if _, single := s.(neotest.SingleSigner); !single {
					return true
				}
			}
		}
	case []byte:
		for _, s := range cl.signers {
			if bytes.Contains(x, s.ScriptHash().BytesBE()) || bytes.Contains(x, s.ScriptHash().BytesLE()) {
				return true
			}
			if ss, single := s.(neotest.SingleSigner); single && bytes.Contains(x, ss.Account().PublicKey().Bytes()) {
				return true
			}
		}
	}
	return false
}

// c03NullWaives: argument positions at which the Null item does not name "a key nobody holds" but asks for something
// the documentation allows with fewer witnesses. NNS setAdmin(name, Null) removes the admin, which the owner alone may
// do (contracts/nns: the new admin's witness is required only when an admin is given) - the two-keys requirement of
// the row does not apply to it.
func c03NullWaives(key string, pos int, v any) bool {
	return v == nil && key == "nns.setAdmin/2" && pos == 1
}

// c03Mutate draws one replacement value (pool or, for byte strings, random bytes).
func c03Mutate(rt *rapid.T, e *c03Env, typ string, base any, label string) any {
	switch typ {
	case "ByteArray", "Signature", "Any":
		if rapid.IntRange(0, 5).Draw(rt, label+"Random") == 0 {
			return rapid.SliceOfN(rapid.Byte(), 0, 40).Draw(rt, label)
		}
	}
	pool := c03Pool(e, typ, base)
	return pool[rapid.IntRange(0, len(pool)-1).Draw(rt, label)]
}

type c03Meth struct {
	key  string
	name string
	par  []manifest.Parameter
}

// c03ArgUniverse: the non-safe methods that have a requirement row and at least one parameter.
func c03ArgUniverse(table map[string]c03Row) []c03Meth {
	var universe []c03Meth
	for _, name := range allContracts {
		var m manifest.Manifest
		if err := json.Unmarshal(chainkit.Contract(name).ManBytes, &m); err != nil {
			panic(chainkit.HarnessError{Msg: err.Error()})
		}
		for _, md := range m.ABI.Methods {
			key := fmt.Sprintf("%s.%s/%d", name, md.Name, len(md.Parameters))
			row, ok := table[key]
			if !ok || md.Safe || row.req == reqNone || row.req == reqInternal || len(md.Parameters) == 0 {
				continue
			}
			universe = append(universe, c03Meth{key, md.Name, md.Parameters})
		}
	}
	sort.Slice(universe, func(i, j int) bool { return universe[i].key < universe[j].key })
	return universe
}

// TestC03ArgSweep: every single-position replacement from the pools, every deficient class.
func TestC03ArgSweep(t *testing.T) {
	theT = t
	defer removeBumped()
	col := ev.New("C03", "arg-sweep",
		"complete enumeration: committee sizes from VERIF_C03_SWEEP_N (quick 3, thorough 1,3,7) x every non-safe method of the requirement table with parameters x every deficient signer class of its requirement x every parameter position x every pool value of the parameter's manifest type (the valid tuple with exactly one position replaced; update methods: first deficient class only): the invocation must leave the full snapshot untouched and emit no notification, whether it FAULTs or HALTs; non-trivial = every invocation",
		"the witness requirement table is hand-written from the contracts' documentation")
	defer func() { col.Flush(true) }()
	nshards, shard := envInt("VERIF_NSHARDS", 1), envInt("VERIF_SHARD_INDEX", 0)
	table := c03Table()
	universe := c03ArgUniverse(table)
	idx := 0
	for _, n := range envInts("VERIF_C03_SWEEP_N", []int{3}) {
		for _, u := range universe {
			idx++
			if idx%nshards != shard {
				continue
			}
			h := ev.NewHistory()
			h.Op("n=%d %s", n, u.key)
			evals, halted := 0, 0
			ok := runCase(t, col, h, func() {
				e := newC03Env(n)
				defer e.c.Close()
				e.h["probe"] = e.c.Deploy(chainkit.Probe("subscriber", "verif subscriber 0"), nil)
				row := table[u.key]
				contract := u.key[:strings.Index(u.key, ".")]
				target := e.h[contract]
				if row.target != "" {
					target = e.h[row.target]
				}
				for ci, cl := range e.classes(row) {
					if cl.allowed || (u.name == "update" && ci > 0) {
						continue
					}
					for i := range u.par {
						typ := u.par[i].Type.String()
						e.seq++
						base := row.args(e)
						for _, v := range c03Pool(e, typ, base[i]) {
							if c03Holds(cl, v) || c03NullWaives(u.key, i, v) {
								continue
							}
							args := append([]any{}, base...)
							args[i] = v
							pre := e.c.Snapshot(e.watch...)
							o := e.c.Invoke(cl.signers, target, u.name, args...)
							what := fmt.Sprintf("%s%s (n=%d) invoked by %s", u.key, shortArgs(args), n, cl.name)
							if evals < 3 || o.Halt {
								h.Op("%s -> %s", what, o)
							}
							e.inert(what, pre, o)
							evals++
							if o.Halt {
								halted++
							}
						}
					}
				}
				h.NonTrivial()
			})
			col.Bulk(evals, evals)
			col.Count("deficient-call-halted", halted)
			if !ok {
				return
			}
		}
	}
	col.SetExhaustive(true)
}

// TestC03Args: deficient signer classes stay inert whatever the arguments are.
func TestC03Args(t *testing.T) {
	theT = t
	defer removeBumped()
	col := ev.New("C03", "args",
		"rapid: a fully deployed and prepared world on a drawn committee size {1,3,4,7}; 12 times: a drawn non-safe method of the requirement table, a drawn deficient signer class of its requirement, and its valid argument tuple with 1..3 positions replaced by generated values of the parameter's manifest type (integers {0,-1,1,..,2^31,-2^40}, empty/duplicated/foreign arrays, empty and foreign byte strings, other users' keys and hashes, other names; never a key or account the deficient signers hold): the invocation must leave the full snapshot of all contracts and GAS/NEO balances untouched and emit no notification, whether it FAULTs or HALTs; non-trivial = every invocation; classes record the mutated parameter types and HALTing deficient calls",
		"the witness requirement table is hand-written from the contracts' documentation")
	table := c03Table()
	universe := c03ArgUniverse(table)
	runRapid(t, col, func(rt *rapid.T, h *ev.History) {
		n := rapid.SampledFrom([]int{1, 3, 4, 7}).Draw(rt, "n")
		e := newC03Env(n)
		defer e.c.Close()
		e.h["probe"] = e.c.Deploy(chainkit.Probe("subscriber", "verif subscriber 0"), nil)
		h.Op("n=%d", n)
		for step := 0; step < 12; step++ {
			u := universe[rapid.IntRange(0, len(universe)-1).Draw(rt, "method")]
			row := table[u.key]
			contract := u.key[:strings.Index(u.key, ".")]
			target := e.h[contract]
			if row.target != "" {
				target = e.h[row.target]
			}
			var deficient []c03Class
			for _, cl := range e.classes(row) {
				if !cl.allowed {
					deficient = append(deficient, cl)
				}
			}
			cl := deficient[rapid.IntRange(0, len(deficient)-1).Draw(rt, "class")]
			e.seq++
			args := append([]any{}, row.args(e)...)
			k := rapid.IntRange(1, 3).Draw(rt, "mutations")
			var types []string
			for j := 0; j < k; j++ {
				i := rapid.IntRange(0, len(args)-1).Draw(rt, "position")
				typ := u.par[i].Type.String()
				v := c03Mutate(rt, e, typ, args[i], fmt.Sprintf("arg%d", i))
				if c03Holds(cl, v) || c03NullWaives(u.key, i, v) {
					h.Mark("kept:value-held-by-the-signers")
					continue
				}
				args[i] = v
				types = append(types, typ)
			}
			pre := e.c.Snapshot(e.watch...)
			o := e.c.Invoke(cl.signers, target, u.name, args...)
			what := fmt.Sprintf("%s%s (n=%d) invoked by %s", u.key, shortArgs(args), n, cl.name)
			h.Op("%s -> %s", what, o)
			e.inert(what, pre, o)
			for _, ty := range types {
				h.Mark("mutated:" + ty)
			}
			if o.Halt {
				h.Mark("deficient-call-halted")
			}
			h.Mark("req:" + row.req)
		}
		h.NonTrivial()
	})
}

var _ neotest.Signer
