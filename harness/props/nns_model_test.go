package props

import (
	"sort"
	"strings"
)

// nnsName is the model's view of one registered name.
type nnsName struct {
	owner []byte // nil = committee owned (TLDs)
	exp   int64  // ms
	admin []byte
	tld   bool
}

// nnsModel is the reference model of name ownership shared by C10, C11 and C12.
type nnsModel struct {
	names  map[string]*nnsName
	roots  map[string]bool
	supply int
}

func newNnsModel() *nnsModel {
	return &nnsModel{names: map[string]*nnsName{}, roots: map[string]bool{}}
}

func (m *nnsModel) alive(name string, t int64) bool {
	n, ok := m.names[name]
	return ok && t < n.exp
}

// suffixes returns name's enclosing names from the TLD down to name itself.
func suffixes(name string) []string {
	parts := strings.Split(name, ".")
	var res []string
	for i := len(parts) - 1; i >= 0; i-- {
		res = append(res, strings.Join(parts[i:], "."))
	}
	return res
}

// parentsAlive: every proper enclosing name (TLD .. direct parent) exists and is unexpired at t.
func (m *nnsModel) parentsAlive(name string, t int64) bool {
	s := suffixes(name)
	for _, p := range s[:len(s)-1] {
		if !m.alive(p, t) {
			return false
		}
	}
	return true
}

func (m *nnsModel) chainAlive(name string, t int64) bool {
	return m.parentsAlive(name, t) && m.alive(name, t)
}

func parentOf(name string) string {
	if i := strings.IndexByte(name, '.'); i >= 0 {
		return name[i+1:]
	}
	return ""
}

func levelOf(name string) int { return strings.Count(name, ".") + 1 }

func tldOf(name string) string {
	if i := strings.LastIndexByte(name, '.'); i >= 0 {
		return name[i+1:]
	}
	return name
}

// tokensOf lists the non-TLD names recorded for owner (expired ones included).
func (m *nnsModel) tokensOf(owner []byte) []string {
	var res []string
	for k, n := range m.names {
		if !n.tld && string(n.owner) == string(owner) {
			res = append(res, k)
		}
	}
	sort.Strings(res)
	return res
}

// witnessSet answers "does the transaction carry the witness of h".
type witnessSet struct {
	hashes    map[string]bool
	committee bool
}

func (w witnessSet) has(h []byte) bool { return h != nil && w.hashes[string(h)] }

// isAdmin mirrors the statement: owner or admin; the committee for committee-owned names.
func (n *nnsName) isAdmin(w witnessSet) bool {
	if len(n.owner) == 0 {
		return w.committee
	}
	return w.has(n.owner) || w.has(n.admin)
}
