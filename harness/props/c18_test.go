package props

import (
	"fmt"
	"strings"
	"testing"

	"github.com/nspcc-dev/neo-go/pkg/neotest"
	"pgregory.net/rapid"

	"verif/harness/chainkit"
	"verif/harness/ev"
)

// c18World: NNS with TLD "com", name "test.com" owned by u0 holding one record
// of each type (so that setRecord can be probed).
type c18World struct {
	*nnsWorld
	owner []neotest.Signer
	tlds  map[string]bool
	col   *ev.Collector
	// known-finding gates
	forgiveTrailing bool
}

func newC18World(h *ev.History, col *ev.Collector) *c18World {
	w := &c18World{nnsWorld: newNnsWorld(1, h, "com"), tlds: map[string]bool{"com": true}, col: col}
	w.owner = []neotest.Signer{w.users[0]}
	if o := w.register(w.owner, "test.com", w.users[0].ScriptHash(), hundredYearsSec); !o.Halt {
		fail("C18 harness: register test.com: %s", o)
	}
	for _, r := range []struct {
		t int64
		d string
	}{{recA, "1.2.3.4"}, {recAAAA, "2a00::1"}, {recCNAME, "x.com"}, {recTXT, "t"}} {
		if o := w.c.Invoke(w.owner, w.nns, "addRecord", "test.com", r.t, r.d); !o.Halt {
			fail("C18 harness: addRecord %d %q: %s", r.t, r.d, o)
		}
	}
	// second name without records, for addRecord probes
	if o := w.register(w.owner, "probe.com", w.users[0].ScriptHash(), hundredYearsSec); !o.Halt {
		fail("C18 harness: register probe.com: %s", o)
	}
	return w
}

// accepts reports whether a test invocation HALTs.
func (w *c18World) accepts(signers []neotest.Signer, method string, args ...any) (*chainkit.Outcome, bool) {
	o := w.call(signers, method, args...)
	return o, o.Halt
}

func (w *c18World) mismatch(what, s string, ref bool, o *chainkit.Outcome) {
	verdict := "accepts"
	if !o.Halt {
		verdict = "rejects"
	}
	fail("C18: %s %s %q (%x) although the reference says well-formed=%v [%s]", what, verdict, s, s, ref, o)
}

// checkName probes every name-accepting entry point with s.
func (w *c18World) checkName(s string) {
	ref := refName(s)
	// CNAME data: no TLD lookup involved
	for _, m := range []string{"addRecord", "setRecord"} {
		var o *chainkit.Outcome
		var ok bool
		if m == "addRecord" {
			o, ok = w.accepts(w.owner, "addRecord", "probe.com", recCNAME, s)
		} else {
			o, ok = w.accepts(w.owner, "setRecord", "test.com", recCNAME, int64(0), s)
		}
		if ok != ref {
			w.mismatch(m+"(CNAME)", s, ref, o)
		}
	}
	// registerTLD
	if !w.tlds[s] {
		o, ok := w.accepts(w.committee, "registerTLD", s, "e@nspcc.io", int64(1), int64(1), int64(100000), int64(1))
		if ok != refTLD(s) {
			w.mismatch("registerTLD", s, refTLD(s), o)
		}
	}
	// isAvailable / register need the TLD named by the last label: register it
	// on the fly whenever that label alone is a valid TLD, so that syntax is the
	// only reason left to refuse.
	last := s
	if i := strings.LastIndexByte(s, '.'); i >= 0 {
		last = s[i+1:]
	}
	if refTLD(last) && !w.tlds[last] {
		if o := w.registerTLD(last, hundredYearsSec); !o.Halt {
			fail("C18: registerTLD(%q) of a well-formed TLD failed: %s", last, o)
		}
		w.tlds[last] = true
	}
	if refTLD(last) || !ref {
		o, ok := w.accepts(nil, "isAvailable", s)
		if ok != ref {
			w.mismatch("isAvailable", s, ref, o)
		}
	}
	labels := strings.Count(s, ".") + 1
	if !ref || (labels == 2 && refTLD(last)) {
		o, ok := w.accepts(w.owner, "register", s, w.users[0].ScriptHash(), "e@nspcc.io", int64(1), int64(1), int64(100000), int64(1))
		if ok != ref {
			w.mismatch("register", s, ref, o)
		}
	}
}

// checkData probes A / AAAA / TXT acceptance of s.
func (w *c18World) checkData(s string, h *ev.History) {
	for _, t := range []struct {
		typ  int64
		name string
		ref  bool
		skip bool
	}{
		{recA, "A", refIPv4(s), false},
		{recAAAA, "AAAA", refIPv6(s), ipv6DontCare(s)},
		{recTXT, "TXT", len(s) <= 255, false},
	} {
		if t.skip {
			continue
		}
		ref := t.ref
		o1, ok1 := w.accepts(w.owner, "addRecord", "probe.com", t.typ, s)
		o2, ok2 := w.accepts(w.owner, "setRecord", "test.com", t.typ, int64(0), s)
		if t.typ == recTXT && s == "t" || t.typ == recA && s == "1.2.3.4" || t.typ == recAAAA && s == "2a00::1" {
			ok2 = true // same value again: not a syntax question
		}
		if t.typ == recAAAA && w.forgiveTrailing && ref && !ok1 && isTrailingCompression(s) {
			w.col.Exclude("KF-C18-aaaa-7-groups-then-compression")
			if h != nil {
				h.Mark("forgiven:KF-C18-aaaa-7-groups-then-compression")
			}
			continue
		}
		if ok1 != ref {
			w.mismatch("addRecord("+t.name+")", s, ref, o1)
		}
		if ok2 != ref {
			w.mismatch("setRecord("+t.name+")", s, ref, o2)
		}
	}
}

// isTrailingCompression: seven explicit groups followed by "::" (or "::" followed by seven groups).
func isTrailingCompression(s string) bool {
	if strings.HasSuffix(s, "::") && strings.Count(s, ":") == 8 {
		return true
	}
	return strings.HasPrefix(s, "::") && strings.Count(s, ":") == 8
}

var c18Alphabet = []byte{'a', 'z', '0', '9', '-', '.', 'A', '_', '+', ' '}

// TestC18Exhaustive enumerates all strings up to a length bound over the reduced alphabet.
func TestC18Exhaustive(t *testing.T) {
	theT = t
	maxLen := envInt("VERIF_C18_MAXLEN", 4)
	col := ev.New("C18", "exhaustive",
		fmt.Sprintf("complete enumeration of all strings of length 0..%d over {a,z,0,9,-,.,A,_,+,space}; each string is probed as CNAME data (addRecord and setRecord), as registerTLD argument, as isAvailable and register argument (the TLD named by its last label is registered on the fly when that label is well formed) and as A/AAAA/TXT data; acceptance (HALT of a test invocation) must equal the independent reference predicate; non-trivial = string with a dot or accepted by some reference predicate", maxLen),
		"embedded-IPv4 and zone forms of AAAA are don't-care")
	defer func() { col.Flush(true) }()
	nshards, shard := envInt("VERIF_NSHARDS", 1), envInt("VERIF_SHARD_INDEX", 0)
	h := ev.NewHistory()
	w := newC18World(h, col)
	defer w.close()
	evals, nt := 0, 0
	idx := 0
	var rec func(prefix []byte, depth int) bool
	rec = func(prefix []byte, depth int) bool {
		idx++
		if idx%nshards == shard {
			s := string(prefix)
			ok := true
			func() {
				defer func() {
					if r := recover(); r != nil {
						hh := ev.NewHistory()
						hh.Op("string %q", s)
						col.Fail(t.Name(), fmt.Sprint(r), hh)
						t.Errorf("%v", r)
						ok = false
					}
				}()
				w.checkName(s)
				w.checkData(s, nil)
			}()
			evals += 9
			if strings.Contains(s, ".") || refName(s) {
				nt++
				if nt%400 == 1 {
					col.Sample(map[string]any{"string": s, "refName": refName(s), "refTLD": refTLD(s)})
				}
			}
			if !ok {
				return false
			}
		}
		if depth == maxLen {
			return true
		}
		for _, c := range c18Alphabet {
			if !rec(append(append([]byte{}, prefix...), c), depth+1) {
				return false
			}
		}
		return true
	}
	done := rec(nil, 0)
	col.Bulk(evals, nt)
	col.SetExhaustive(done)
}

// TestC18IPv6Exhaustive enumerates colon/hex-digit strings behind global-unicast prefixes.
func TestC18IPv6Exhaustive(t *testing.T) {
	theT = t
	maxLen := envInt("VERIF_C18_V6LEN", 6)
	col := ev.New("C18", "ipv6-exhaustive",
		fmt.Sprintf("complete enumeration of AAAA data of the form prefix+suffix with prefix in {2a00, 2001:db9, 2001, ::, empty, 2a00:1:2:3:4:5} and every suffix of length 0..%d over {':','1','0','f','+'} (all placements of single and double colons, dangling colons, signs, group lengths 1..5 behind a valid first group), probed through addRecord and setRecord against the reference parser; non-trivial = suffix containing a colon", maxLen))
	defer func() { col.Flush(true) }()
	nshards, shard := envInt("VERIF_NSHARDS", 1), envInt("VERIF_SHARD_INDEX", 0)
	w := newC18World(ev.NewHistory(), col)
	defer w.close()
	if _, ok := ev.KnownListed("C18", "KF-C18-aaaa-7-groups-then-compression"); ok {
		w.forgiveTrailing = c18ForgiveTrailing
	}
	alphabet := []byte{':', '1', '0', 'f', '+'}
	evals, nt, idx := 0, 0, 0
	okAll := true
	var rec func(prefix string, suffix []byte)
	rec = func(prefix string, suffix []byte) {
		if !okAll {
			return
		}
		idx++
		if idx%nshards == shard {
			s := prefix + string(suffix)
			func() {
				defer func() {
					if r := recover(); r != nil {
						hh := ev.NewHistory()
						hh.Op("AAAA data %q", s)
						col.Fail(t.Name(), fmt.Sprint(r), hh)
						t.Errorf("%v", r)
						okAll = false
					}
				}()
				ref := refIPv6(s)
				o1, ok1 := w.accepts(w.owner, "addRecord", "probe.com", recAAAA, s)
				if ok1 != ref {
					w.mismatch("addRecord(AAAA)", s, ref, o1)
				}
				if s != "2a00::1" {
					o2, ok2 := w.accepts(w.owner, "setRecord", "test.com", recAAAA, int64(0), s)
					if ok2 != ref {
						w.mismatch("setRecord(AAAA)", s, ref, o2)
					}
				}
			}()
			evals += 2
			if strings.Contains(string(suffix), ":") {
				nt++
				if nt%3000 == 1 {
					col.Sample(map[string]any{"AAAA": s, "ref": refIPv6(s)})
				}
			}
		}
		if len(suffix) == maxLen {
			return
		}
		for _, c := range alphabet {
			rec(prefix, append(append([]byte{}, suffix...), c))
		}
	}
	for _, prefix := range []string{"2a00", "2001:db9", "2001", "::", "", "2a00:1:2:3:4:5"} {
		rec(prefix, nil)
	}
	col.Bulk(evals, nt)
	col.SetExhaustive(okAll)
}

var ipv4Fields = []string{"0", "1", "9", "10", "99", "100", "127", "128", "169", "172", "192", "223", "224", "254", "255", "256", "00", "01", "+1", "-1", "1 ", "", "a", "1e1", "٣", "16", "31", "32", "168", "15"}

// TestC18IPv4Product enumerates dotted quads from the field pool.
func TestC18IPv4Product(t *testing.T) {
	theT = t
	col := ev.New("C18", "ipv4-product",
		"product of the IPv4 field pool {0,1,9,10,15,16,31,32,99,100,127,128,168,169,172,192,223,224,254,255,256,00,01,+1,-1,'1 ','',a,1e1,arabic-3}^4 (complete in the thorough tier, every 7th element in quick) plus arity/separator variants, probed as A data through addRecord and setRecord; non-trivial = every element (all are distinct dotted strings near the grammar)")
	defer func() { col.Flush(true) }()
	nshards, shard := envInt("VERIF_NSHARDS", 1), envInt("VERIF_SHARD_INDEX", 0)
	stride := 7
	if ev.Thorough() {
		stride = 1
	}
	w := newC18World(ev.NewHistory(), col)
	defer w.close()
	n := len(ipv4Fields)
	evals := 0
	probe := func(s string) bool {
		ok := true
		func() {
			defer func() {
				if r := recover(); r != nil {
					hh := ev.NewHistory()
					hh.Op("A data %q", s)
					col.Fail(t.Name(), fmt.Sprint(r), hh)
					t.Errorf("%v", r)
					ok = false
				}
			}()
			ref := refIPv4(s)
			o1, ok1 := w.accepts(w.owner, "addRecord", "probe.com", recA, s)
			if ok1 != ref {
				w.mismatch("addRecord(A)", s, ref, o1)
			}
			if s != "1.2.3.4" {
				o2, ok2 := w.accepts(w.owner, "setRecord", "test.com", recA, int64(0), s)
				if ok2 != ref {
					w.mismatch("setRecord(A)", s, ref, o2)
				}
			}
		}()
		evals += 2
		return ok
	}
	idx := 0
	for a := 0; a < n; a++ {
		for b := 0; b < n; b++ {
			for c := 0; c < n; c++ {
				for d := 0; d < n; d++ {
					idx++
					if idx%stride != 0 || (idx/stride)%nshards != shard {
						continue
					}
					s := ipv4Fields[a] + "." + ipv4Fields[b] + "." + ipv4Fields[c] + "." + ipv4Fields[d]
					if idx%50000 == 0 {
						col.Sample(map[string]any{"A": s, "ref": refIPv4(s)})
					}
					if !probe(s) {
						col.Bulk(evals, evals/2)
						return
					}
				}
			}
		}
	}
	if shard == 0 {
		for _, s := range []string{"1.2.3", "1.2.3.4.5", "1..2.3", ".1.2.3", "1.2.3.", "1,2,3,4", "1.2.3.4 ", " 1.2.3.4", "1.2.3.4\n", "8.8.8.8", "1.1.1.1", "100.64.0.1", "198.18.0.1", "203.0.113.1", "0x1.2.3.4", "1.2.3.04", "255.255.255.255", "223.255.255.254", "1.2.3.４"} {
			if !probe(s) {
				break
			}
		}
	}
	col.Bulk(evals, evals/2)
	col.SetExhaustive(stride == 1)
}

// ---------------------------------------------------------------------------
// generators for the rapid part

func genLabel(rt *rapid.T, label string, root bool) string {
	max := 63
	if root {
		max = 16
	}
	n := rapid.SampledFrom([]int{1, 1, 2, 3, 5, max - 1, max, max + 1}).Draw(rt, label+"Len")
	if n < 1 {
		n = 1
	}
	b := make([]byte, n)
	chars := "abcxyz0189-"
	for i := range b {
		b[i] = chars[rapid.IntRange(0, len(chars)-1).Draw(rt, label+"Ch")]
	}
	// most of the time repair the ends so that the label is well formed
	if rapid.IntRange(0, 4).Draw(rt, label+"Repair") != 0 {
		if b[0] == '-' || (root && !isLower(b[0])) {
			b[0] = 'k'
		}
		if b[n-1] == '-' {
			b[n-1] = 'k'
		}
	}
	return string(b)
}

func genName(rt *rapid.T) string {
	n := rapid.SampledFrom([]int{1, 2, 2, 3, 4, 5}).Draw(rt, "labels")
	var parts []string
	for i := 0; i < n; i++ {
		parts = append(parts, genLabel(rt, "l", i == n-1))
	}
	s := strings.Join(parts, ".")
	// length boundary: pad the first label towards 253..256 total
	if rapid.IntRange(0, 5).Draw(rt, "padToLimit") == 0 {
		target := rapid.SampledFrom([]int{253, 254, 255, 256}).Draw(rt, "total")
		for len(s) < target {
			add := target - len(s)
			if add > 64 {
				add = 64
			}
			if add < 2 {
				s = "a" + s
			} else {
				s = strings.Repeat("a", add-1) + "." + s
			}
		}
	}
	return mutate(rt, s)
}

// mutate applies zero or one structured mutation.
func mutate(rt *rapid.T, s string) string {
	if len(s) == 0 {
		return s
	}
	switch rapid.SampledFrom([]string{"none", "none", "none", "replace", "insert", "delete", "upper", "trail"}).Draw(rt, "mutation") {
	case "replace":
		i := rapid.IntRange(0, len(s)-1).Draw(rt, "pos")
		c := rapid.SampledFrom([]string{"A", "_", "-", ".", "+", " ", "\x00", "é", ":", "/"}).Draw(rt, "char")
		return s[:i] + c + s[i+1:]
	case "insert":
		i := rapid.IntRange(0, len(s)).Draw(rt, "pos")
		c := rapid.SampledFrom([]string{"A", "_", "-", ".", "+", " ", "0", "a", ":", "::"}).Draw(rt, "char")
		return s[:i] + c + s[i:]
	case "delete":
		i := rapid.IntRange(0, len(s)-1).Draw(rt, "pos")
		return s[:i] + s[i+1:]
	case "upper":
		return strings.ToUpper(s)
	case "trail":
		return s + rapid.SampledFrom([]string{".", " ", "\n", "-", ":", "::"}).Draw(rt, "trail")
	}
	return s
}

func genIPv4(rt *rapid.T) string {
	var parts []string
	for i := 0; i < 4; i++ {
		if rapid.IntRange(0, 3).Draw(rt, "poolField") == 0 {
			parts = append(parts, rapid.SampledFrom(ipv4Fields).Draw(rt, "field"))
		} else {
			parts = append(parts, fmt.Sprint(rapid.IntRange(0, 260).Draw(rt, "octet")))
		}
	}
	return mutate(rt, strings.Join(parts, "."))
}

func genIPv6(rt *rapid.T) string {
	group := func() string {
		switch rapid.IntRange(0, 9).Draw(rt, "groupKind") {
		case 0:
			return "0"
		case 1:
			return rapid.SampledFrom([]string{"8000", "fff", "ffff", "db8", "db9", "200", "1ff", "F00D", "0db8", "7fff", "f", "80"}).Draw(rt, "special")
		default:
			n := rapid.IntRange(1, 4).Draw(rt, "digits")
			b := make([]byte, n)
			hexd := "0123456789abcdefABCDEF"
			for i := range b {
				b[i] = hexd[rapid.IntRange(0, len(hexd)-1).Draw(rt, "hex")]
			}
			return string(b)
		}
	}
	first := rapid.SampledFrom([]string{"2001", "2001", "2a00", "2002", "3ffe", "3fff", "2000", "1fff", "4000", "fe80", "2A01", "20", "0"}).Draw(rt, "first")
	total := 8
	var gs []string
	compress := rapid.IntRange(0, 2).Draw(rt, "compress") != 0
	if compress {
		total = rapid.IntRange(1, 8).Draw(rt, "explicitGroups")
	}
	gs = append(gs, first)
	for len(gs) < total {
		gs = append(gs, group())
	}
	s := strings.Join(gs, ":")
	if compress {
		pos := rapid.IntRange(0, len(gs)).Draw(rt, "compressAt")
		switch {
		case pos == 0:
			s = "::" + s
		case pos == len(gs):
			s = s + "::"
		default:
			s = strings.Join(gs[:pos], ":") + "::" + strings.Join(gs[pos:], ":")
		}
	}
	if rapid.IntRange(0, 5).Draw(rt, "signed") == 0 {
		i := strings.IndexByte(s, ':')
		if i > 0 && i+1 < len(s) && s[i+1] != ':' {
			s = s[:i+1] + rapid.SampledFrom([]string{"+", "-"}).Draw(rt, "sign") + s[i+1:]
		}
	}
	return mutate(rt, s)
}

func TestC18Structured(t *testing.T) {
	theT = t
	col := ev.New("C18", "structured",
		"rapid: per case one fresh NNS and 12 generated strings: names built from labels at length boundaries 1/2/3/15/16/17/62/63/64 and totals 253..256 with structured mutations (replace/insert/delete a character from {A,_,-,.,+,space,NUL,e-acute,:,/}, upper-casing, trailing dot/space/newline), IPv4 from the field pool and random octets with mutations, IPv6 from a grammar (1..4 hex digits any case, special groups 8000/fff/db8/200/1ff, one '::' at any position, signed groups) with mutations, TXT of length 0/1/254/255/256/300 and random byte strings; every string is probed through every entry point as in the exhaustive group; one rejected input per case is also committed and must leave the full snapshot unchanged; non-trivial = case whose strings include at least one reference-valid and one reference-invalid value",
		"embedded-IPv4 and zone forms of AAAA are don't-care")
	// witness of the (possible) known finding
	{
		w := newC18World(ev.NewHistory(), col)
		_, ok := w.accepts(w.owner, "addRecord", "probe.com", recAAAA, "2a00:1:2:3:4:5:6::")
		if !ok {
			if _, listed := ev.KnownListed("C18", "KF-C18-aaaa-7-groups-then-compression"); listed {
				col.ReportKnown("KF-C18-aaaa-7-groups-then-compression", "NNS rejects AAAA data with seven explicit groups followed (or preceded) by '::' (witness: addRecord(name, AAAA, \"2a00:1:2:3:4:5:6::\") faults) although RFC 4291 lets '::' stand for a single zero group")
				c18ForgiveTrailing = true
			}
		}
		w.close()
	}
	runRapid(t, col, func(rt *rapid.T, h *ev.History) {
		w := newC18World(h, col)
		w.forgiveTrailing = c18ForgiveTrailing
		defer w.close()
		valid, invalid := false, false
		var rejected []func() *chainkit.Outcome
		for i := 0; i < 12; i++ {
			switch rapid.SampledFrom([]string{"name", "name", "ipv4", "ipv6", "ipv6", "txt", "bytes"}).Draw(rt, "kind") {
			case "name":
				s := genName(rt)
				h.Op("name %q (%d bytes) ref=%v", clip(s), len(s), refName(s))
				w.checkName(s)
				if refName(s) {
					valid = true
				} else {
					invalid = true
					rejected = append(rejected, func() *chainkit.Outcome {
						return w.c.Invoke(w.owner, w.nns, "addRecord", "probe.com", recCNAME, s)
					})
				}
			case "ipv4":
				s := genIPv4(rt)
				h.Op("A %q ref=%v", s, refIPv4(s))
				w.checkData(s, h)
				if refIPv4(s) {
					valid = true
				} else {
					invalid = true
					rejected = append(rejected, func() *chainkit.Outcome { return w.c.Invoke(w.owner, w.nns, "addRecord", "probe.com", recA, s) })
				}
			case "ipv6":
				s := genIPv6(rt)
				h.Op("AAAA %q ref=%v", s, refIPv6(s))
				w.checkData(s, h)
				if refIPv6(s) {
					valid = true
				} else if !ipv6DontCare(s) {
					invalid = true
					rejected = append(rejected, func() *chainkit.Outcome {
						return w.c.Invoke(w.owner, w.nns, "setRecord", "test.com", recAAAA, int64(0), s)
					})
				}
			case "txt":
				n := rapid.SampledFrom([]int{0, 1, 254, 255, 256, 300}).Draw(rt, "txtLen")
				s := strings.Repeat("x", n)
				h.Op("TXT of %d bytes", n)
				w.checkData(s, h)
				if n <= 255 {
					valid = true
				} else {
					invalid = true
					rejected = append(rejected, func() *chainkit.Outcome { return w.c.Invoke(w.owner, w.nns, "addRecord", "probe.com", recTXT, s) })
				}
			default:
				b := rapid.SliceOfN(rapid.Byte(), 0, 40).Draw(rt, "bytes")
				s := string(b)
				h.Op("bytes %x", b)
				w.checkName(s)
				w.checkData(s, h)
			}
		}
		if len(rejected) > 0 {
			pre := w.c.Snapshot()
			o := rejected[rapid.IntRange(0, len(rejected)-1).Draw(rt, "commitRejected")]()
			if o.Halt {
				fail("C18: a reference-invalid input was accepted when committed: %s", o)
			}
			if d := chainkit.Diff(pre, w.c.Snapshot()); len(d) != 0 {
				fail("C18: a rejected input changed state: %v", d)
			}
			h.Mark("rejected-committed")
		}
		if valid && invalid {
			h.NonTrivial()
		}
	})
}

var c18ForgiveTrailing bool

func clip(s string) string {
	if len(s) > 80 {
		return s[:40] + "..." + s[len(s)-30:]
	}
	return s
}

// TestC18DeepNames: the overall length bound (255 bytes) on names that can only be reached through a chain of
// registered parents: every label is fine, the parents exist, only the sum is too long.
func TestC18DeepNames(t *testing.T) {
	theT = t
	col := ev.New("C18", "deep-names",
		"complete enumeration: under the TLD com three nested 63-byte labels are registered (195-byte name), then every length 1..63 of a fourth-level label (total 197..259 bytes) and, below a registered 4-level name of 250 bytes, fifth-level labels of 1..8 bytes are probed with isAvailable and register (by the owner of all parents) and as CNAME data; accepted iff the whole name is at most 255 bytes; non-trivial = a total length within 3 of the bound")
	defer func() { col.Flush(true) }()
	h := ev.NewHistory()
	evals, nt := 0, 0
	runCase(t, col, h, func() {
		w := newC18World(h, col)
		defer w.close()
		lab := func(ch byte, n int) string { return strings.Repeat(string([]byte{ch}), n) }
		parent := "com"
		for i, ch := range []byte{'a', 'b', 'c'} {
			parent = lab(ch, 63) + "." + parent
			if o := w.register(w.owner, parent, w.users[0].ScriptHash(), hundredYearsSec); !o.Halt {
				panic(chainkit.HarnessError{Msg: fmt.Sprintf("c18 deep: registering level %d: %s", i+2, o)})
			}
		}
		probe := func(name string) {
			want := len(name) <= 255
			evals++
			if d := len(name) - 255; d >= -3 && d <= 3 {
				nt++
			}
			for _, m := range []string{"isAvailable", "register"} {
				var o *chainkit.Outcome
				if m == "isAvailable" {
					o = w.call(nil, "isAvailable", name)
				} else {
					o = w.call(w.owner, "register", name, w.users[0].ScriptHash(), "m@nspcc.io", int64(1), int64(2), int64(100000), int64(3))
				}
				if o.Halt != want {
					fail("C18: %s of a %d-byte name (every label well formed, every parent registered) -> %s, expected accepted=%v", m, len(name), o, want)
				}
			}
			if o := w.call(w.owner, "addRecord", "probe.com", recCNAME, name); o.Halt != want {
				fail("C18: CNAME data of %d bytes -> %s, expected accepted=%v", len(name), o, want)
			}
		}
		for n := 1; n <= 63; n++ {
			probe(lab('d', n) + "." + parent)
		}
		deep := lab('d', 54) + "." + parent // 54+1+195 = 250
		if o := w.register(w.owner, deep, w.users[0].ScriptHash(), hundredYearsSec); !o.Halt {
			panic(chainkit.HarnessError{Msg: "c18 deep: registering the 250-byte name: " + o.String()})
		}
		for n := 1; n <= 8; n++ {
			probe(lab('e', n) + "." + deep)
		}
		h.Op("lengths 197..259 at level 5, 252..259 at level 6")
		h.NonTrivial()
	})
	col.Bulk(evals, nt)
	col.SetExhaustive(true)
}
