package props

import (
	"fmt"
	"sort"
	"strings"
	"testing"

	"github.com/nspcc-dev/neo-go/pkg/encoding/address"
	"github.com/nspcc-dev/neo-go/pkg/neotest"
	"github.com/nspcc-dev/neo-go/pkg/util"
	"github.com/nspcc-dev/neo-go/pkg/vm/stackitem"
	rpcnns "github.com/nspcc-dev/neofs-contract/rpc/nns"
	"pgregory.net/rapid"

	"verif/harness/chainkit"
	"verif/harness/ev"
)

// recModel: records keyed by (token, name, type), ordered by id.
type recModel struct {
	recs map[string]map[string]map[int64][]string
	soa  map[string]*soaState
}

type soaState struct {
	name   string
	email  string
	serial int64
	rest   string // "refresh retry expire ttl"
}

func newRecModel() *recModel {
	return &recModel{recs: map[string]map[string]map[int64][]string{}, soa: map[string]*soaState{}}
}

func (m *recModel) list(token, name string, typ int64) []string {
	return m.recs[token][name][typ]
}

func (m *recModel) set(token, name string, typ int64, l []string) {
	if m.recs[token] == nil {
		m.recs[token] = map[string]map[int64][]string{}
	}
	if m.recs[token][name] == nil {
		m.recs[token][name] = map[int64][]string{}
	}
	m.recs[token][name][typ] = l
}

// c12Run couples ownership model, record model and contract.
type c12Run struct {
	*nnsRun
	rm    *recModel
	owner who
}

// token: the longest registered unexpired enclosing name with at least two
// labels, else the name itself.
func (r *c12Run) token(name string, t int64) string {
	parts := strings.Split(name, ".")
	for i := 0; i < len(parts)-1; i++ {
		s := strings.Join(parts[i:], ".")
		if r.m.alive(s, t) {
			return s
		}
	}
	return name
}

func (r *c12Run) tokenUsable(tok string, t int64) bool {
	return levelOf(tok) > 1 && r.m.chainAlive(tok, t)
}

func (r *c12Run) soaString(tok string) string {
	s := r.rm.soa[tok]
	return fmt.Sprintf("%s %s %d %s", s.name, s.email, s.serial, s.rest)
}

// all returns every record of (token, name) as RecordState renderings ordered by (type, id).
func (r *c12Run) all(tok, name string) []string {
	var res []string
	types := []int64{recA, recCNAME, recSOA, recTXT, recAAAA}
	sort.Slice(types, func(i, j int) bool { return types[i] < types[j] })
	for _, typ := range types {
		var l []string
		if typ == recSOA {
			if name == tok && r.rm.soa[tok] != nil {
				l = []string{r.soaString(tok)}
			}
		} else {
			l = r.rm.list(tok, name, typ)
		}
		for id, d := range l {
			res = append(res, chainkit.ItemString(stackitem.NewStruct([]stackitem.Item{stackitem.Make(name), stackitem.Make(typ), stackitem.Make(d), stackitem.Make(id)})))
		}
	}
	return res
}

func (r *c12Run) register(name string, delta int64, expireSec int64) {
	t := int64(r.c.Now()) + max64(delta, 1)
	// conflict rule
	conflict, collision := false, false
	parent := parentOf(name)
	for recName, byType := range r.rm.recs[parent] {
		has := false
		for _, l := range byType {
			if len(l) > 0 {
				has = true
			}
		}
		if !has {
			continue
		}
		if strings.HasSuffix(recName, "."+name) {
			conflict = true
		} else if strings.HasSuffix(recName, name) && recName != name {
			collision = true
		}
	}
	parentOK := r.m.roots[tldOf(name)] && r.m.parentsAlive(name, t)
	old, exists := r.m.names[name]
	if parentOK && conflict {
		o := r.invoke(r.owner, delta, "register", name, r.users[0].ScriptHash(), "mail@nspcc.io", int64(3600), int64(600), expireSec, int64(3600))
		r.h.Op("register(%s) while the parent holds records of its sub-names at t=%d -> %s", name, t, o)
		if o.Halt {
			r.fail("register(%s) succeeded although %s holds records for sub-names of it", name, parent)
		}
		r.h.Mark("register-refused-by-conflicting-records")
		return
	}
	if parentOK && collision {
		// a record name that merely ends with the string: statement is silent
		o := r.invoke(r.owner, delta, "register", name, r.users[0].ScriptHash(), "mail@nspcc.io", int64(3600), int64(600), expireSec, int64(3600))
		r.h.Op("register(%s) with a suffix-colliding record name in the parent at t=%d -> %s", name, t, o)
		r.h.Mark("ambiguous:suffix-collision")
		if b, ok := o.Bool(); o.Halt && ok && b {
			if !exists {
				r.m.supply++
			}
			r.m.names[name] = &nnsName{owner: r.users[0].ScriptHash().BytesBE(), exp: t + expireSec*1000}
			r.rm.soa[name] = &soaState{name: name, email: "mail@nspcc.io", serial: t, rest: fmt.Sprintf("3600 600 %d 3600", expireSec)}
		}
		return
	}
	o := r.opRegister(r.owner, delta, name, r.users[0].ScriptHash(), expireSec)
	if b, ok := o.Bool(); o.Halt && ok && b {
		_ = old
		r.rm.soa[name] = &soaState{name: name, email: "mail@nspcc.io", serial: t, rest: fmt.Sprintf("3600 600 %d 3600", expireSec)}
	}
}

func (r *c12Run) addRecord(name string, typ int64, data string, delta int64) {
	t := int64(r.c.Now()) + max64(delta, 1)
	o := r.invoke(r.owner, delta, "addRecord", name, typ, data)
	what := fmt.Sprintf("addRecord(%s,%d,%q) at t=%d", name, typ, data, t)
	r.h.Op("%s -> %s", what, o)
	tok := r.token(name, t)
	l := r.rm.list(tok, name, typ)
	dup := false
	for _, d := range l {
		if d == data {
			dup = true
		}
	}
	ok := r.tokenUsable(tok, t) && typ != recSOA && !dup && len(l) < 16 && !(typ == recCNAME && len(l) >= 1)
	if ok != o.Halt {
		r.fail("%s: token %s usable=%v duplicate=%v stored=%d: expected success=%v, got %s", what, tok, r.tokenUsable(tok, t), dup, len(l), ok, o)
	}
	if !ok {
		if dup {
			r.h.Mark("duplicate-refused")
		}
		if len(l) >= 16 {
			r.h.Mark("limit-16-refused")
		}
		return
	}
	r.rm.set(tok, name, typ, append(append([]string{}, l...), data))
	r.rm.soa[tok].serial = t
	if tok != name {
		r.h.Mark("record-of-sub-name-under-enclosing-token")
	}
}

func (r *c12Run) setRecord(name string, typ int64, id int64, data string, delta int64) {
	t := int64(r.c.Now()) + max64(delta, 1)
	o := r.invoke(r.owner, delta, "setRecord", name, typ, id, data)
	what := fmt.Sprintf("setRecord(%s,%d,#%d,%q) at t=%d", name, typ, id, data, t)
	r.h.Op("%s -> %s", what, o)
	tok := r.token(name, t)
	l := r.rm.list(tok, name, typ)
	ok := r.tokenUsable(tok, t) && typ != recSOA && id >= 0 && id < int64(len(l))
	if ok != o.Halt {
		r.fail("%s: token %s usable=%v stored=%d: expected success=%v, got %s", what, tok, r.tokenUsable(tok, t), len(l), ok, o)
	}
	if !ok {
		return
	}
	for i, d := range l {
		if d == data && int64(i) != id {
			r.h.Mark("ambiguous:setRecord-to-value-present-at-another-index")
		}
	}
	nl := append([]string{}, l...)
	nl[id] = data
	r.rm.set(tok, name, typ, nl)
	r.rm.soa[tok].serial = t
	r.h.Mark("setRecord-ok")
}

func (r *c12Run) deleteRecords(name string, typ int64, delta int64) {
	t := int64(r.c.Now()) + max64(delta, 1)
	o := r.invoke(r.owner, delta, "deleteRecords", name, typ)
	what := fmt.Sprintf("deleteRecords(%s,%d) at t=%d", name, typ, t)
	r.h.Op("%s -> %s", what, o)
	tok := r.token(name, t)
	ok := r.tokenUsable(tok, t) && typ != recSOA
	if ok != o.Halt {
		r.fail("%s: token %s usable=%v: expected success=%v, got %s", what, tok, r.tokenUsable(tok, t), ok, o)
	}
	if !ok {
		return
	}
	if len(r.rm.list(tok, name, typ)) > 0 {
		r.h.Mark("delete-of-existing-records")
	}
	r.rm.set(tok, name, typ, nil)
	r.rm.soa[tok].serial = t
}

// resolveRef is the reference resolver. ok=false means some link cannot be read
// (dangling CNAME): don't-care. hops = CNAME links followed; cycle => hops = 99.
func (r *c12Run) resolveRef(name string, typ int64, t int64) (res []string, hops int, ok bool) {
	cur := name
	seen := map[string]bool{}
	for {
		cur = strings.TrimSuffix(cur, ".")
		if seen[cur] {
			return res, 99, true
		}
		seen[cur] = true
		tok := r.token(cur, t)
		if !r.tokenUsable(tok, t) {
			return res, hops, false
		}
		res = append(res, r.listWithSOA(tok, cur, typ)...)
		cn := r.rm.list(tok, cur, recCNAME)
		if len(cn) == 0 || typ == recCNAME {
			return res, hops, true
		}
		hops++
		cur = cn[len(cn)-1]
	}
}

func (r *c12Run) listWithSOA(tok, name string, typ int64) []string {
	if typ == recSOA {
		if name == tok && r.rm.soa[tok] != nil {
			return []string{r.soaString(tok)}
		}
		return nil
	}
	return r.rm.list(tok, name, typ)
}

func strItems(o *chainkit.Outcome) ([]string, bool) {
	arr, ok := o.Array()
	if !ok {
		return nil, false
	}
	res := make([]string, len(arr))
	for i := range arr {
		res[i] = string(chainkit.ItemBytes(arr[i]))
	}
	return res, true
}

func eqOrdered(a, b []string) bool {
	if len(a) != len(b) {
		return false
	}
	for i := range a {
		if a[i] != b[i] {
			return false
		}
	}
	return true
}

// readAll compares the three read paths for every query name and type.
func (r *c12Run) readAll(queries []string, what string) {
	t := int64(r.c.Now()) + 1
	for _, q := range queries {
		tok := r.token(q, t)
		usable := r.tokenUsable(tok, t)
		// getAllRecords
		ga := r.call(nil, "getAllRecords", q)
		if usable {
			if !ga.Halt {
				r.fail("getAllRecords(%s) failed: %s (%s)", q, ga.Fault, what)
			}
			arr, _ := ga.Array()
			var got []string
			for _, it := range arr {
				got = append(got, chainkit.ItemString(it))
			}
			if want := r.all(tok, q); !eqOrdered(got, want) {
				r.fail("getAllRecords(%s) = %v, expected (ordered by type, id) %v (%s)", q, got, want, what)
			}
		} else if ga.Halt {
			if arr, _ := ga.Array(); len(arr) > 0 {
				r.fail("getAllRecords(%s) returned records although the enclosing name is missing or expired (%s)", q, what)
			}
		}
		for _, typ := range []int64{recA, recCNAME, recSOA, recTXT, recAAAA} {
			gr := r.call(nil, "getRecords", q, typ)
			if usable {
				got, ok := strItems(gr)
				if !gr.Halt || !ok {
					r.fail("getRecords(%s,%d) failed: %s (%s)", q, typ, gr, what)
				}
				if want := r.listWithSOA(tok, q, typ); !eqOrdered(got, want) {
					r.fail("getRecords(%s,%d) = %q, expected %q (%s)", q, typ, got, want, what)
				}
			} else if gr.Halt {
				if got, _ := strItems(gr); len(got) > 0 {
					r.fail("getRecords(%s,%d) returned %q although the enclosing name is missing or expired (%s)", q, typ, got, what)
				}
			}
			for _, qq := range []string{q, q + "."} {
				want, hops, ok := r.resolveRef(qq, typ, t)
				rs := r.call(nil, "resolve", qq, typ)
				if !ok {
					r.h.Mark("ambiguous:dangling-cname")
					continue
				}
				switch {
				case hops <= 2:
					got, isList := strItems(rs)
					if !rs.Halt || !isList || !eqOrdered(got, want) {
						r.fail("resolve(%s,%d) = %s, expected %q (CNAME links: %d) (%s)", qq, typ, rs, want, hops, what)
					}
					if hops > 0 {
						r.h.Mark(fmt.Sprintf("resolve-through-%d-links", hops))
					}
				case hops == 3:
					r.h.Mark("ambiguous:resolve-through-3-links")
					if rs.Halt {
						if got, _ := strItems(rs); !eqOrdered(got, want) {
							r.fail("resolve(%s,%d) through 3 links = %q, expected %q (%s)", qq, typ, got, want, what)
						}
					}
				default:
					if rs.Halt {
						r.fail("resolve(%s,%d) succeeded on a CNAME chain of %d links (cycle=%v) (%s)", qq, typ, hops, hops == 99, what)
					}
					r.h.Mark("resolve-refused-long-chain-or-cycle")
				}
			}
		}
	}
	// SOA serials
	for tok, s := range r.rm.soa {
		if !r.tokenUsable(tok, t) {
			continue
		}
		gr := r.call(nil, "getRecords", tok, recSOA)
		got, _ := strItems(gr)
		if len(got) != 1 {
			r.fail("getRecords(%s, SOA) = %q (%s)", tok, got, what)
		}
		f := strings.Fields(got[0])
		if len(f) != 7 || f[2] != fmt.Sprint(s.serial) {
			r.fail("SOA serial of %s is %q, the last mutation of its records was at %d (%s)", tok, got[0], s.serial, what)
		}
	}
}

func TestC12Stateful(t *testing.T) {
	theT = t
	col := ev.New("C12", "stateful",
		"rapid state machine: addRecord/setRecord/deleteRecords (types A, AAAA, CNAME, TXT, SOA; up to 18 values per type; ids 0..17) over registered names a.com, b.com, c.com, s.a.com and sub-names x.a.com, y.x.a.com, xs.a.com, interleaved with registrations (incl. names whose parent already holds records of their sub-names), expiry jumps and re-registration, incl. the composite 'a short-lived name expires, a record of its sub-name is added meanwhile, the name is registered again' and 'a short-lived parent expires under a long-lived child that holds records'; CNAME targets drawn from the same universe (chains of 0..4 links, cycles, dangling targets); after every step getRecords, getAllRecords (order by type,id) and resolve (with and without trailing dot) for all names and types and the SOA serial of every token are compared with the record model and the reference resolver (<=2 links must succeed, >=4 or a cycle must fail, exactly 3 is set-valued); non-trivial = history with a record of a sub-name stored under an enclosing token and at least one of {resolve through 1-2 links, limit or duplicate refusal, register refused by conflicting records, deletion of existing records}",
		"all record operations are made by the owner of the token (authorisation is C11)", "setRecord onto a value present at another index and suffix-colliding record names are don't-care", "resolve through a dangling CNAME is don't-care")
	runRapid(t, col, func(rt *rapid.T, h *ev.History) {
		w := newNnsWorld(1, h)
		defer w.close()
		r := &c12Run{nnsRun: newNnsRun(w, "C12"), rm: newRecModel()}
		r.owner = who{signers: []neotest.Signer{w.users[0]}, desc: "u0"}
		committee := who{signers: w.committee, desc: "committee"}
		r.opRegisterTLD(committee, 1, "com", hundredYearsSec)
		r.rm.soa["com"] = &soaState{name: "com"}
		r.register("a.com", 1, hundredYearsSec)
		for _, n := range []string{"b.com", "c.com"} {
			if rapid.IntRange(0, 3).Draw(rt, "pre-"+n) != 0 {
				r.register(n, 1, hundredYearsSec)
			}
		}
		registrable := []string{"a.com", "b.com", "c.com", "s.a.com", "x.a.com", "p.com", "k.p.com"}
		recNames := []string{"a.com", "b.com", "c.com", "s.a.com", "x.a.com", "y.x.a.com", "xs.a.com", "z.s.a.com", "p.com", "k.p.com", "q.k.p.com",
			// sub-names two labels below names that get registered later (x.a.com, k.p.com): a conflict all the same
			"w.y.x.a.com", "r.q.k.p.com"}
		// a sub-name of exactly 255 bytes (the longest name there is): with the trailing root dot its spelling has 256
		longest := strings.Repeat("l", 63) + "." + strings.Repeat("m", 63) + "." + strings.Repeat("n", 63) + "." + strings.Repeat("o", 57) + ".a.com"
		if len(longest) != 255 {
			panic(chainkit.HarnessError{Msg: "c12: the longest name is not 255 bytes long"})
		}
		recNames = append(recNames, longest)
		data := map[int64][]string{
			recA:     {"1.2.3.4", "8.8.8.8", "9.9.9.9"},
			recAAAA:  {"2a00::1", "2a00::2"},
			recTXT:   {"t1", "t2", "t3", ""},
			recCNAME: {"a.com", "b.com", "c.com", "s.a.com", "x.a.com", "nowhere.com"},
		}
		steps := rapid.IntRange(2, 30).Draw(rt, "steps")
		for s := 0; s < steps; s++ {
			delta := int64(1)
			switch rapid.SampledFrom([]string{"add", "add", "add", "add", "set", "delete", "register", "fill", "expire", "chain", "reregister-over-records", "parent-expires"}).Draw(rt, "kind") {
			case "parent-expires":
				// a short-lived parent with a long-lived child that holds records (its own and those of a sub-name):
				// once the parent has expired every read and write path below it must refuse
				now := int64(r.c.Now())
				if nm, ok := r.m.names["p.com"]; !ok || nm.exp <= now {
					r.register("p.com", 1, rapid.SampledFrom([]int64{1000, 2000}).Draw(rt, "parentLife"))
				}
				if nm, ok := r.m.names["k.p.com"]; !ok || nm.exp <= int64(r.c.Now()) {
					r.register("k.p.com", 1, hundredYearsSec)
				}
				r.addRecord("k.p.com", recTXT, fmt.Sprintf("child-%d", s), 1)
				r.addRecord("q.k.p.com", recTXT, fmt.Sprintf("grandchild-%d", s), 1)
				now = int64(r.c.Now())
				if nm, ok := r.m.names["p.com"]; ok && nm.exp > now && nm.exp-now < 5_000_000 {
					d := nm.exp - now + int64(rapid.SampledFrom([]int{-1, 0, 1}).Draw(rt, "offset"))
					if d < 1 {
						d = 1
					}
					r.c.AddBlock(uint64(d))
					h.Op("time jumps by %d ms to the expiration boundary of p.com (its child k.p.com lives on)", d)
					h.Mark("expiry-jump")
					h.Mark("parent-expired-under-live-child")
				}
			case "reregister-over-records":
				// a short-lived name expires, a record of one of its sub-names is added meanwhile (it lands
				// under the enclosing live name), then the name is registered again: the conflict rule
				// does not depend on whether the name was registered before
				sub := rapid.SampledFrom([]string{"s.a.com", "x.a.com"}).Draw(rt, "subName")
				child := map[string]string{"s.a.com": "z.s.a.com", "x.a.com": "y.x.a.com"}[sub]
				now := int64(r.c.Now())
				if nm, ok := r.m.names[sub]; !ok || nm.exp <= now {
					r.register(sub, 1, rapid.SampledFrom([]int64{2, 1000}).Draw(rt, "shortLife"))
				}
				now = int64(r.c.Now())
				if nm, ok := r.m.names[sub]; ok && nm.exp > now && nm.exp-now < 2_000_000 {
					d := nm.exp - now + int64(rapid.SampledFrom([]int{0, 1}).Draw(rt, "offset"))
					if d < 1 {
						d = 1
					}
					r.c.AddBlock(uint64(d))
					h.Op("time jumps by %d ms past the expiration of %s", d, sub)
					h.Mark("expiry-jump")
				}
				r.addRecord(child, recTXT, fmt.Sprintf("late-%d", s), 1)
				if nm, ok := r.m.names[sub]; ok && nm.exp <= int64(r.c.Now())+1 {
					h.Mark("re-registration-of-expired-name-with-sub-name-records-in-parent")
				}
				r.register(sub, 1, rapid.SampledFrom([]int64{1000, hundredYearsSec}).Draw(rt, "life2"))
			case "add":
				typ := rapid.SampledFrom([]int64{recA, recAAAA, recCNAME, recCNAME, recTXT, recTXT, recSOA}).Draw(rt, "type")
				d := "x"
				if typ != recSOA {
					d = rapid.SampledFrom(data[typ]).Draw(rt, "data")
				}
				r.addRecord(rapid.SampledFrom(recNames).Draw(rt, "name"), typ, d, delta)
			case "chain":
				// an acyclic CNAME chain of k links over distinct usable names, ending in a TXT record
				k := rapid.IntRange(1, 5).Draw(rt, "links")
				now := int64(r.c.Now()) + 1
				var usable []string
				for _, nn := range recNames {
					if r.tokenUsable(r.token(nn, now), now) {
						usable = append(usable, nn)
					}
				}
				if len(usable) < k+1 {
					break
				}
				perm := rapid.Permutation(usable).Draw(rt, "order")[:k+1]
				for i, nn := range perm {
					r.deleteRecords(nn, recCNAME, 1)
					if i < k {
						r.addRecord(nn, recCNAME, perm[i+1], 1)
					} else {
						r.addRecord(nn, recTXT, fmt.Sprintf("end-of-chain-%d", s), 1)
					}
				}
				h.Mark(fmt.Sprintf("built-chain-of-%d-links", k))
			case "fill":
				// many TXT values on one name: reaches the limit of 16
				name := rapid.SampledFrom(recNames[:3]).Draw(rt, "name")
				k := rapid.IntRange(12, 18).Draw(rt, "count")
				for i := 0; i < k; i++ {
					r.addRecord(name, recTXT, fmt.Sprintf("bulk-%d", i), 1)
				}
			case "set":
				typ := rapid.SampledFrom([]int64{recA, recAAAA, recCNAME, recTXT, recSOA}).Draw(rt, "type")
				d := "x"
				if typ != recSOA {
					d = rapid.SampledFrom(data[typ]).Draw(rt, "data")
				}
				name := rapid.SampledFrom(recNames).Draw(rt, "name")
				// prefer a (name, type) that holds records
				var have [][2]any
				now := int64(r.c.Now()) + 1
				for _, nn := range recNames {
					for _, tt := range []int64{recA, recAAAA, recCNAME, recTXT} {
						if len(r.rm.list(r.token(nn, now), nn, tt)) > 0 {
							have = append(have, [2]any{nn, tt})
						}
					}
				}
				if len(have) > 0 && rapid.IntRange(0, 3).Draw(rt, "setExisting") != 0 {
					p := rapid.SampledFrom(have).Draw(rt, "existing")
					name, typ = p[0].(string), p[1].(int64)
					d = rapid.SampledFrom(data[typ]).Draw(rt, "data2")
				}
				r.setRecord(name, typ, int64(rapid.SampledFrom([]int{0, 0, 0, 1, 2, 15, 16, 17}).Draw(rt, "id")), d, delta)
			case "delete":
				r.deleteRecords(rapid.SampledFrom(recNames).Draw(rt, "name"), rapid.SampledFrom([]int64{recA, recAAAA, recCNAME, recTXT, recSOA}).Draw(rt, "type"), delta)
			case "register":
				r.register(rapid.SampledFrom(registrable).Draw(rt, "name"), delta, rapid.SampledFrom([]int64{2, 1000, hundredYearsSec}).Draw(rt, "life"))
			case "expire":
				// jump onto the expiration of a short-lived name
				var cand []string
				now := int64(r.c.Now())
				for _, n := range registrable {
					if nm, ok := r.m.names[n]; ok && nm.exp > now && nm.exp-now < 2_000_000 {
						cand = append(cand, n)
					}
				}
				if len(cand) > 0 {
					n := rapid.SampledFrom(cand).Draw(rt, "expiring")
					d := r.m.names[n].exp - now + int64(rapid.SampledFrom([]int{-1, 0, 1}).Draw(rt, "offset"))
					if d < 1 {
						d = 1
					}
					r.c.AddBlock(uint64(d))
					h.Op("time jumps by %d ms to the expiration boundary of %s", d, n)
					h.Mark("expiry-jump")
				}
			}
			r.readAll(recNames, h.Ops[len(h.Ops)-1])
		}
		if h.Has("record-of-sub-name-under-enclosing-token") && (h.Has("resolve-through-1-links") || h.Has("resolve-through-2-links") || h.Has("limit-16-refused") || h.Has("duplicate-refused") || h.Has("register-refused-by-conflicting-records") || h.Has("delete-of-existing-records")) {
			h.NonTrivial()
		}
	})
}

// TestC12RoundTrip: contract addresses stored as NNS TXT records are read back
// identically by the contract-side resolver and the RPC-side reader.
func TestC12RoundTrip(t *testing.T) {
	theT = t
	col := ev.New("C12", "roundtrip",
		"rapid: random 20-byte hashes stored under <name>.neofs as little-endian hex or as a Neo address; common.ResolveFSContract (probe contract calling the repository's own helper) and rpc/nns.AddressFromRecord/AddressFromRecords must both return the stored hash; non-trivial = hash containing a byte >= 0x80 (sign-sensitive in hexadecimal parsing)")
	runRapid(t, col, func(rt *rapid.T, h *ev.History) {
		c := chainkit.NewChain(theT, 1, chainkit.Options{})
		defer c.Close()
		fs := chainkit.NewFS(c, chainkit.FSOptions{})
		res := c.Deploy(chainkit.Probe("resolver", ""), nil)
		for i := 0; i < 4; i++ {
			b := rapid.SliceOfN(rapid.Byte(), 20, 20).Draw(rt, "hash")
			var u util.Uint160
			copy(u[:], b)
			name := fmt.Sprintf("svc%d", i)
			form := rapid.SampledFrom([]string{"le-hex", "address"}).Draw(rt, "form")
			rec := u.StringLE()
			if form == "address" {
				rec = address.Uint160ToString(u)
			}
			o := c.Invoke(c.Both(), fs.H["nns"], "register", name+".neofs", c.Committee.ScriptHash(), "ops@nspcc.ru", int64(3600), int64(600), int64(10*365*24*3600), int64(3600))
			if !o.Halt {
				fail("C12 harness: register: %s", o)
			}
			if o := c.Invoke(c.Both(), fs.H["nns"], "addRecord", name+".neofs", recTXT, rec); !o.Halt {
				fail("C12 harness: addRecord: %s", o)
			}
			h.Op("%s.neofs = %s (%s)", name, rec, form)
			for _, x := range b {
				if x >= 0x80 {
					h.NonTrivial()
				}
			}
			got := c.Call(nil, res, "resolve", name)
			if gb, ok := got.Bytes(); !got.Halt || !ok || string(gb) != string(u.BytesBE()) {
				fail("C12: common.ResolveFSContract(%s) = %s, stored %x as %s", name, got, u.BytesBE(), rec)
			}
			rs := c.Call(nil, fs.H["nns"], "resolve", name+".neofs", recTXT)
			strs, _ := strItems(rs)
			hh, err := rpcnns.AddressFromRecords(strs)
			if err != nil || hh != u {
				fail("C12: rpc/nns.AddressFromRecords(%q) = %s, %v; stored %s", strs, hh.StringLE(), err, u.StringLE())
			}
			h1, err := rpcnns.AddressFromRecord(rec)
			if err != nil || h1 != u {
				fail("C12: rpc/nns.AddressFromRecord(%q) = %s, %v", rec, h1.StringLE(), err)
			}
		}
	})
}
