package props

import (
	"fmt"
	"math/big"
	"testing"

	"github.com/nspcc-dev/neo-go/pkg/core/native/nativenames"
	"github.com/nspcc-dev/neo-go/pkg/util"

	"github.com/nspcc-dev/neo-go/pkg/core/transaction"
	"github.com/nspcc-dev/neo-go/pkg/neotest"

	"verif/harness/chainkit"
	"verif/harness/ev"
)

// A signer listed on a transaction is not a witness for every contract the transaction reaches: its scope says
// where the witness holds. These two groups put the key the property names on the transaction with a scope that
// does not cover the contract under test (scope None: the key only pays the fees; CalledByEntry while the call goes
// through a third-party contract) and demand what the property demands of a missing witness.

// TestC02Scopes: the holder's key is on the transaction but does not cover the Balance call.
func TestC02Scopes(t *testing.T) {
	theT = t
	col := ev.New("C02", "scopes",
		"complete enumeration: amount {1, half, whole balance} x the holder's scope {None as the sender, None as a second signer, CalledByEntry while transfer is reached through a forwarding contract} x receiver {the stranger who wrote the script, a third account}: a public transfer(from = holder) issued by a stranger's script must report false and move nothing, because the holder's witness does not cover the Balance contract; control: the same call with the holder's witness in Global scope succeeds; non-trivial = every case")
	defer func() { col.Flush(true) }()
	for _, amtCls := range []string{"one", "half", "all"} {
		for _, shape := range []string{"holder is the sender with scope None", "holder is a second signer with scope None", "holder signs CalledByEntry, the call goes through a forwarding contract"} {
			for _, toStranger := range []bool{true, false} {
				h := ev.NewHistory()
				h.Op("amount=%s; %s; receiver is the stranger=%v", amtCls, shape, toStranger)
				if !runCase(t, col, h, func() {
					w := newBalWorld(1, h)
					defer w.close()
					holder, stranger := w.users[0], chainkit.NamedUser("c02-scope-stranger")
					w.c.FundGAS(holder.ScriptHash(), 500*gasUnit)
					w.c.FundGAS(stranger.ScriptHash(), 500*gasUnit)
					if o := w.c.Invoke([]neotest.Signer{w.c.Alphabet}, w.bal, "mint", holder.ScriptHash(), bi(1000), []byte("m")); !o.Halt {
						panic(chainkit.HarnessError{Msg: "c02 scopes: mint: " + o.Fault})
					}
					bal := w.state().bal(holder.ScriptHash().BytesBE())
					amt := bi(1)
					switch amtCls {
					case "half":
						amt = bi(bal.Int64() / 2)
					case "all":
						amt = bi(bal.Int64())
					}
					to := w.users[1].ScriptHash()
					if toStranger {
						to = stranger.ScriptHash()
					}
					script := chainkit.Script(w.bal, "transfer", holder.ScriptHash(), to, amt, nil)
					var ss []chainkit.ScopedSigner
					switch shape {
					case "holder is the sender with scope None":
						ss = []chainkit.ScopedSigner{{S: holder, Scope: transaction.None}, {S: stranger, Scope: transaction.Global}}
					case "holder is a second signer with scope None":
						ss = []chainkit.ScopedSigner{{S: stranger, Scope: transaction.Global}, {S: holder, Scope: transaction.None}}
					default:
						script = chainkit.Script(w.actor, "call", w.bal, "transfer", []any{holder.ScriptHash(), to, amt, nil})
						ss = []chainkit.ScopedSigner{{S: holder, Scope: transaction.CalledByEntry}}
					}
					pre := w.state()
					o := w.c.InvokeBlock(0, w.c.PrepareScoped(script, ss))[0]
					post := w.state()
					h.Op("transfer(holder -> %x.., %v) -> %s", to.BytesBE()[:3], amt, o)
					if b, isb := o.Bool(); o.Halt && isb && b {
						fail("C02: transfer(from = holder, %v) reported true although the holder's witness does not cover the Balance contract (%s)", amt, shape)
					}
					if d := new(big.Int).Sub(post.bal(holder.ScriptHash().BytesBE()), pre.bal(holder.ScriptHash().BytesBE())); d.Sign() != 0 {
						fail("C02: the holder's balance changed by %v in a transaction whose witness of the holder does not cover the Balance contract (%s)", d, shape)
					}
					// control: Global scope
					o2 := w.c.Invoke([]neotest.Signer{holder}, w.bal, "transfer", holder.ScriptHash(), to, amt, nil)
					if b, isb := o2.Bool(); !o2.Halt || !isb || !b {
						fail("C02: control transfer with the holder's Global witness failed: %s", o2)
					}
					h.NonTrivial()
				}) {
					return
				}
			}
		}
	}
	col.SetExhaustive(true)
}

// TestC07Scopes: a node's own request needs the node's witness *for the Netmap contract* and the Alphabet's.
func TestC07Scopes(t *testing.T) {
	theT = t
	col := ev.New("C07", "scopes",
		"complete enumeration: method {addPeer, addNode, updateState(Maintenance), updateState(Offline)} x the node key's place on the transaction {sender with scope None, second signer with scope None, CustomContracts naming another contract} with the Alphabet multisignature in Global scope: the call must fail and leave netmapCandidates/listCandidates untouched (the node never gave its witness to Netmap); control: the same transaction with the node's witness in Global scope succeeds; non-trivial = every case")
	defer func() { col.Flush(true) }()
	for _, method := range []string{"addPeer", "addNode", "updateState-maintenance", "updateState-offline"} {
		for _, shape := range []string{"node is the sender with scope None", "node is a second signer with scope None", "node signs with CustomContracts naming another contract"} {
			h := ev.NewHistory()
			h.Op("%s; %s", method, shape)
			if !runCase(t, col, h, func() {
				w := newNmWorld(1, h)
				defer w.close()
				node := w.nodes[0]
				w.c.FundGAS(node.ScriptHash(), 500*gasUnit)
				w.c.FundGAS(w.c.Alphabet.ScriptHash(), 500*gasUnit)
				if method != "addPeer" && method != "addNode" {
					// something to update
					if o := w.c.Invoke([]neotest.Signer{node, w.c.Alphabet}, w.nm, "addPeer", legacyInfo(w.pub(0), 1)); !o.Halt {
						panic(chainkit.HarnessError{Msg: "c07 scopes: addPeer: " + o.Fault})
					}
					if o := w.c.Invoke([]neotest.Signer{node, w.c.Alphabet}, w.nm, "addNode", node2Item(w.pub(0), 1, 1)); !o.Halt {
						panic(chainkit.HarnessError{Msg: "c07 scopes: addNode: " + o.Fault})
					}
				}
				var name string
				var args []any
				switch method {
				case "addPeer":
					name, args = "addPeer", []any{legacyInfo(w.pub(0), 2)}
				case "addNode":
					name, args = "addNode", []any{node2Item(w.pub(0), 2, 1)}
				case "updateState-maintenance":
					name, args = "updateState", []any{int64(3), w.pub(0)}
				default:
					name, args = "updateState", []any{int64(2), w.pub(0)}
				}
				script := chainkit.Script(w.nm, name, args...)
				alpha := chainkit.ScopedSigner{S: w.c.Alphabet, Scope: transaction.Global}
				var ss []chainkit.ScopedSigner
				switch shape {
				case "node is the sender with scope None":
					ss = []chainkit.ScopedSigner{{S: node, Scope: transaction.None}, alpha}
				case "node is a second signer with scope None":
					ss = []chainkit.ScopedSigner{alpha, {S: node, Scope: transaction.None}}
				default:
					ss = []chainkit.ScopedSigner{alpha, {S: node, Scope: transaction.CustomContracts, Allowed: []util.Uint160{w.c.NativeHash(nativenames.Gas)}}}
				}
				snap := func() string {
					return fmt.Sprint(w.c.Call(nil, w.nm, "netmapCandidates"), w.c.Call(nil, w.nm, "listCandidates"))
				}
				pre := snap()
				o := w.c.InvokeBlock(0, w.c.PrepareScoped(script, ss))[0]
				h.Op("%s -> %s", name, o)
				if o.Halt {
					fail("C07: %s succeeded although the node's witness does not cover the Netmap contract (%s)", name, shape)
				}
				if post := snap(); post != pre {
					fail("C07: a refused %s changed the candidate lists (%s)", name, shape)
				}
				if o2 := w.c.Invoke([]neotest.Signer{node, w.c.Alphabet}, w.nm, name, args...); !o2.Halt {
					fail("C07: control %s with the node's Global witness and the Alphabet failed: %s", name, o2)
				}
				h.NonTrivial()
			}) {
				return
			}
		}
	}
	col.SetExhaustive(true)
}
