package props

import (
	"math/big"
	"testing"

	"github.com/nspcc-dev/neo-go/pkg/neotest"
	"pgregory.net/rapid"

	"verif/harness/ev"
)

var theT *testing.T

// balStep draws and executes one Balance invocation, applying the C01 and C02
// oracles (both are per-invocation statements over the same observations).
func (w *balWorld) balStep(rt *rapid.T, kinds []string) {
	h := w.h
	st := w.state()
	pool := w.addrPool(st)
	kind := rapid.SampledFrom(kinds).Draw(rt, "kind")
	op := &balOp{kind: kind}
	alphaOnly := []neotest.Signer{w.c.Alphabet}
	drawAddr := func(label string) []byte { return rapid.SampledFrom(pool).Draw(rt, label) }
	// signer set for Alphabet-only methods: mostly the Alphabet, sometimes not.
	alphaOrNot := func() []neotest.Signer {
		if w.c.FormerAlphabet != nil && rapid.IntRange(0, 3).Draw(rt, "formerAlphabet") == 0 {
			// after a re-election of the committee the account that used to be the Alphabet is nobody
			h.Mark("alphabet-method-by-the-former-alphabet")
			return []neotest.Signer{w.c.FormerAlphabet}
		}
		if rapid.IntRange(0, 9).Draw(rt, "noAlpha") == 0 {
			h.Mark("alphabet-method-without-alphabet")
			var cand []neotest.Signer
			for _, s := range w.signerPool() {
				if s.ScriptHash() != w.c.Alphabet.ScriptHash() {
					cand = append(cand, s)
				}
			}
			return subset(rt, "signers", cand)
		}
		return alphaOnly
	}
	var pre, post *balState
	switch kind {
	case "transfer":
		var from, to []byte
		fromC := rapid.SampledFrom([]string{"pool", "pool", "pool", "pool", "pool", "empty", "19", "21", "null"}).Draw(rt, "fromShape")
		toC := rapid.SampledFrom([]string{"pool", "pool", "pool", "pool", "self", "empty", "19", "21", "null"}).Draw(rt, "toShape")
		shape := func(c, label string) []byte {
			switch c {
			case "empty":
				return []byte{}
			case "null":
				// the Null stack item: the one non-address value the Transfer notification's Hash160 parameter admits
				return nil
			case "19":
				return drawAddr(label)[:19]
			case "21":
				return append(append([]byte{}, drawAddr(label)...), 7)
			}
			return drawAddr(label)
		}
		from = shape(fromC, "from")
		if toC == "self" {
			to = from
			h.Mark("self-transfer")
		} else {
			to = shape(toC, "to")
		}
		if fromC != "pool" || (toC != "pool" && toC != "self") {
			h.Mark("malformed-address")
		}
		amt, cls := amountFor(rt, st.bal(from), "amount")
		op.amount = amt
		op.viaActor = rapid.IntRange(0, 5).Draw(rt, "viaActor") == 0
		op.signers = subset(rt, "signers", w.signerPool())
		if op.viaActor {
			h.Mark("via-contract")
		}
		h.Mark("amount:" + cls)
		op.desc = "transfer(" + w.name(from) + "->" + w.name(to) + "," + amt.String() + ") signers=" + sig(op.signers, w.names)
		if op.viaActor {
			op.desc += " via actor"
		}
		if !(len(op.signers) == 1 && len(from) == 20 && op.signers[0].ScriptHash().BytesBE() != nil && string(op.signers[0].ScriptHash().BytesBE()) == string(from)) && amt.Sign() != 0 {
			h.Mark("debit-attempt-signers-not-exactly-from")
		}
		var fromArg, toArg any = from, to
		if from == nil {
			fromArg = nil
		}
		if to == nil {
			toArg = nil
		}
		p1, p2, out := w.do(op, w.bal, "transfer", fromArg, toArg, amt, nil)
		pre, post = p1, p2
		w.check(pre, post, out, op)
		if b, ok := out.Bool(); out.Halt && ok && b && amt.Sign() != 0 {
			h.Mark("ok-change")
		} else {
			h.Mark("refused")
		}
	case "transferX":
		from, to := drawAddr("from"), drawAddr("to")
		amt, cls := amountFor(rt, st.bal(from), "amount")
		op.amount, op.signers = amt, alphaOrNot()
		h.Mark("amount:" + cls)
		op.desc = "transferX(" + w.name(from) + "->" + w.name(to) + "," + amt.String() + ") signers=" + sig(op.signers, w.names)
		p1, p2, out := w.do(op, w.bal, "transferX", from, to, amt, []byte("det"))
		w.check(p1, p2, out, op)
		if out.Halt && amt.Sign() != 0 {
			h.Mark("ok-change")
		} else {
			h.Mark("refused")
		}
	case "mint":
		to := drawAddr("to")
		amt, cls := amountFor(rt, big.NewInt(1000), "amount")
		op.amount, op.signers = amt, alphaOrNot()
		h.Mark("amount:" + cls)
		op.desc = "mint(" + w.name(to) + "," + amt.String() + ") signers=" + sig(op.signers, w.names)
		p1, p2, out := w.do(op, w.bal, "mint", to, amt, []byte("mint-det"))
		w.check(p1, p2, out, op)
		if out.Halt && amt.Sign() != 0 {
			h.Mark("ok-change")
		} else {
			h.Mark("refused")
		}
	case "drain":
		// the Alphabet burns the whole balance of every account: the supply reaches zero (and grows again later)
		for _, a := range pool {
			b := st.bal(a)
			if b.Sign() <= 0 {
				continue
			}
			dop := &balOp{kind: "burn", amount: new(big.Int).Set(b), signers: alphaOnly}
			dop.desc = "burn(" + w.name(a) + "," + b.String() + ") [drain] signers=" + sig(dop.signers, w.names)
			p1, p2, out := w.do(dop, w.bal, "burn", a, b, []byte("drain"))
			w.check(p1, p2, out, dop)
			if out.Halt {
				h.Mark("ok-change")
			}
		}
		if w.state().supply.Sign() == 0 {
			h.Mark("supply-reached-zero")
		}
		return
	case "burn":
		from := drawAddr("from")
		amt, cls := amountFor(rt, st.bal(from), "amount")
		op.amount, op.signers = amt, alphaOrNot()
		h.Mark("amount:" + cls)
		op.desc = "burn(" + w.name(from) + "," + amt.String() + ") signers=" + sig(op.signers, w.names)
		p1, p2, out := w.do(op, w.bal, "burn", from, amt, []byte("burn-det"))
		w.check(p1, p2, out, op)
		if out.Halt && amt.Sign() != 0 {
			h.Mark("ok-change")
		} else {
			h.Mark("refused")
		}
	case "lock":
		from := drawAddr("from")
		to := w.freshAddr()
		amt, cls := amountFor(rt, st.bal(from), "amount")
		until := w.epoch + int64(rapid.IntRange(-1, 4).Draw(rt, "untilDelta"))
		if until < 1 {
			until = 1 // 0 is the contract's "not a lock" marker; the Inner Ring never produces it
		}
		op.amount, op.signers = amt, alphaOrNot()
		h.Mark("amount:" + cls)
		op.desc = "lock(" + w.name(from) + "->" + w.name(to.BytesBE()) + "," + amt.String() + ",until=" + itoa(until) + ") signers=" + sig(op.signers, w.names)
		p1, p2, out := w.do(op, w.bal, "lock", []byte("lock-det"), from, to, amt, until)
		w.check(p1, p2, out, op)
		if out.Halt {
			h.Mark("ok-lock")
			if amt.Sign() != 0 {
				h.Mark("ok-change")
			}
		} else {
			h.Mark("refused")
		}
	case "newEpoch":
		// direct call of Balance.newEpoch (what Netmap does on a tick)
		e := w.epoch + int64(rapid.IntRange(-1, 6).Draw(rt, "epochDelta"))
		op.amount, op.signers = bi(0), alphaOrNot()
		op.desc = "balance.newEpoch(" + itoa(e) + ") signers=" + sig(op.signers, w.names)
		p1, p2, out := w.do(op, w.bal, "newEpoch", e)
		w.check(p1, p2, out, op)
		if out.Halt && !sameRaw(p1.raw, p2.raw) {
			h.Mark("ok-change")
			h.Mark("unlock")
		}
	case "reelect":
		// the chain votes in a wholly new committee (once per history): from the next block on the Alphabet is the new
		// committee's 2n/3+1 account, the old one has no say
		if w.c.FormerAlphabet != nil {
			return
		}
		w.c.Reelect("bal")
		w.names[w.c.FormerAlphabet.ScriptHash()] = "FormerAlphabet"
		w.names[w.c.FormerCommittee.ScriptHash()] = "FormerMajority"
		w.names[w.c.Alphabet.ScriptHash()] = "Alphabet"
		w.names[w.c.Committee.ScriptHash()] = "Majority"
		h.Op("the committee is re-elected (NEO votes): new Alphabet account %s", w.c.Alphabet.ScriptHash().StringLE()[:6])
		h.Mark("committee-re-elected")
	case "tick":
		e := w.epoch + int64(rapid.IntRange(0, 3).Draw(rt, "epochDelta"))
		op.amount, op.signers = bi(0), alphaOrNot()
		op.desc = "netmap.newEpoch(" + itoa(e) + ") signers=" + sig(op.signers, w.names)
		p1, p2, out := w.do(op, w.netmap, "newEpoch", e)
		w.check(p1, p2, out, op)
		if out.Halt {
			w.epoch = e
			if !sameRaw(p1.raw, p2.raw) {
				h.Mark("ok-change")
				h.Mark("unlock")
			}
		} else {
			h.Mark("refused")
		}
	}
}

func itoa(v int64) string { return big.NewInt(v).String() }

func TestC01Stateful(t *testing.T) {
	theT = t
	col := ev.New("C01", "stateful",
		"rapid state machine over transfer/transferX/mint/burn/lock/newEpoch/tick and the composite 'drain' (every account burnt completely: supply 0, later mints start from there) on NNS+Netmap+Balance (n in {1,3}); accounts: 3 users, a contract, the Balance contract's own address, a never funded one, lock accounts; a case is non-trivial when it contains at least one successful balance-changing invocation and at least one refused or boundary-amount invocation; distinct = distinct operation lists",
		"Alphabet-only methods receive well-formed 20-byte addresses", "lock targets are fresh addresses", "lock until >= 1 (0 is the contract's not-a-lock marker)",
		"transaction atomicity on FAULT is provided by neo-go (trusted)")
	runRapid(t, col, func(rt *rapid.T, h *ev.History) {
		n := rapid.SampledFrom([]int{1, 1, 3}).Draw(rt, "n")
		drawValidators(rt, h, n)
		w := newBalWorld(n, h)
		defer w.close()
		w.c01 = true
		h.Op("committee n=%d", n)
		// a funded start so that most histories are interesting
		for i, u := range w.users {
			op := &balOp{kind: "mint", amount: bi(int64(100 * (i + 1))), signers: []neotest.Signer{w.c.Alphabet}, desc: "mint(" + w.name(u.ScriptHash().BytesBE()) + "," + itoa(int64(100*(i+1))) + ")"}
			p1, p2, out := w.do(op, w.bal, "mint", u.ScriptHash(), op.amount, []byte("init"))
			w.check(p1, p2, out, op)
		}
		kinds := []string{"transfer", "transfer", "transfer", "transfer", "transfer", "transfer", "transferX", "transferX", "transferX", "transferX", "mint", "mint", "burn", "burn", "burn", "burn", "lock", "lock", "lock", "lock", "newEpoch", "newEpoch", "tick", "tick", "drain"}
		steps := rapid.IntRange(1, 25).Draw(rt, "steps")
		for i := 0; i < steps; i++ {
			w.balStep(rt, kinds)
		}
		if h.Has("ok-change") && (h.Has("refused") || h.Has("amount:eq") || h.Has("amount:eq+1") || h.Has("amount:zero")) {
			h.NonTrivial()
		}
	})
}
