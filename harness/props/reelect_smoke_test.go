package props

import (
	"testing"

	"verif/harness/chainkit"
)

func TestReelectSmoke(t *testing.T) {
	theT = t
	for _, n := range []int{1, 3, 4} {
		c := chainkit.NewChain(t, n, chainkit.Options{})
		fa, fc := c.Reelect("x")
		t.Logf("n=%d former %s %s now %s %s height %d", n, fa.ScriptHash().StringLE(), fc.ScriptHash().StringLE(), c.Alphabet.ScriptHash().StringLE(), c.Committee.ScriptHash().StringLE(), c.Height())
		c.Close()
	}
}
