package props

import (
	"fmt"
	"github.com/nspcc-dev/neo-go/pkg/neotest"
	"testing"

	"pgregory.net/rapid"

	"verif/harness/chainkit"
	"verif/harness/ev"
)

func detBytes(label string, n int) []byte {
	b := make([]byte, n)
	copy(b, []byte(label))
	for i := len(label); i < n; i++ {
		b[i] = byte(i * 13)
	}
	return b
}

func TestC04Stateful(t *testing.T) {
	theT = t
	col := ev.New("C04", "stateful",
		"rapid state machine over put/putNamed/put(meta)/delete/setEACL on 3 owners and a pool of 18 blobs (version-field offsets 0,1,5,69,200; 6 of them end with the owner field or one byte after it; names from a 3-name pool, several blobs share a name; in half of the cases the alias domain of one name is registered by the committee in advance instead of by the contract), incl. re-put of a live container, delete of a missing one, put after delete, name reuse after deletion, too short blobs, invalid names, a name whose domain belongs to a third party, calls without the Alphabet and a jump of ten years (alias domains expire; named containers keep working and must still be deletable completely); after every step the whole read API, NNS TXT records of every alias domain, the raw storage traces and the notifications of the transaction are compared with a registry model; non-trivial = a delete followed by a later operation on the same id or the same name",
		"fees are 0 (money is C05)", "a container's name and owner are functions of its blob (the Inner Ring derives them from the blob)", "alias domains are registered by the Container contract itself or, for one name, by the committee in advance (its transactions then carry the committee witness too)")
	runRapid(t, col, func(rt *rapid.T, h *ev.History) {
		n := rapid.SampledFrom([]int{1, 1, 3}).Draw(rt, "n")
		w := newCntWorld(n, h, 0, 0)
		defer w.close()
		m := newRegModel()
		// blob pool
		var pool []*cntBlob
		names := []string{"", "", "alpha", "beta", "gamma"}
		i := 0
		for owner := 0; owner < 3; owner++ {
			for _, off := range []int{0, 1, 5, 200} {
				pool = append(pool, w.mkBlob(owner, off, i, names[i%len(names)]))
				i++
			}
		}
		// blobs that end right after the owner field, or one byte later (every field after the owner is optional)
		for owner := 0; owner < 3; owner++ {
			pool = append(pool, w.mkBlobTail(owner, 5+owner, 50+owner, "", 0), w.mkBlobTail(owner, 69, 60+owner, "", owner%2))
		}
		// the documented alternative to self-registration: the committee registers the alias domain in advance
		// (no records yet); transactions that touch it carry the committee's witness as well, because the
		// domain's records are then the committee's to change
		// a domain of the alias zone that belongs to somebody else: never usable as a container name
		if o := w.c.Invoke([]neotest.Signer{w.owners[2]}, w.nns, "register", "squatted.container", w.owners[2].ScriptHash(), "ops@nspcc.ru", int64(3600), int64(600), int64(315360000), int64(3600)); !o.Halt {
			panic(chainkit.HarnessError{Msg: "c04: registration of squatted.container: " + o.String()})
		}
		preGamma := rapid.Bool().Draw(rt, "gammaPreRegisteredByCommittee")
		if preGamma {
			o := w.c.Invoke(w.c.Both(), w.nns, "register", "gamma.container", w.c.Committee.ScriptHash(), "ops@nspcc.ru", int64(3600), int64(600), int64(315360000), int64(3600))
			if b, ok := o.Bool(); !o.Halt || !ok || !b {
				panic(chainkit.HarnessError{Msg: "c04: pre-registration of gamma.container: " + o.String()})
			}
			m.doms["gamma.container"] = true
			h.Op("the committee registers gamma.container in advance")
			h.Mark("alias-domain-pre-registered")
		}
		decadePassed := false
		gammaHandedOver := false
		deletedIDs := map[string]bool{}
		deletedNames := map[string]bool{}
		steps := rapid.IntRange(1, 30).Draw(rt, "steps")
		for s := 0; s < steps; s++ {
			kind := rapid.SampledFrom([]string{"put", "put", "put", "put", "put", "put", "delete", "delete", "delete", "delete", "setEACL", "setEACL", "badput", "badput", "decade", "handover"}).Draw(rt, "kind")
			if kind == "handover" {
				// the committee gives the pre-registered alias domain away (NNS transfer; the admin is cleared): from now
				// on its records are a third party's to change. A container named by it can then be deleted only as a
				// whole or not at all - never "successfully" with its NNS record left behind
				gammaLive := false
				for _, l := range m.live {
					if l.alias == "gamma.container" {
						gammaLive = true
					}
				}
				if preGamma && !gammaHandedOver && !decadePassed && gammaLive {
					o := w.c.Invoke(w.c.Both(), w.nns, "transfer", w.owners[1].ScriptHash(), []byte("gamma.container"), nil)
					if b, ok := o.Bool(); !o.Halt || !ok || !b {
						panic(chainkit.HarnessError{Msg: "c04: hand-over of gamma.container: " + o.String()})
					}
					gammaHandedOver = true
					h.Op("the committee transfers gamma.container to o1")
					h.Mark("alias-domain-handed-over")
				}
				w.compareRegistry(m, fmt.Sprintf("step %d", s))
				continue
			}
			if kind == "decade" {
				// alias domains are registered for ten years and never renewed: after that a named container
				// keeps its alias string, its NNS record is unreachable, and deleting it must still remove everything
				if !decadePassed {
					w.c.AddBlock(uint64(3600*24*365*10+3600*24) * 1000)
					decadePassed = true
					for d := range m.doms {
						m.expired[d] = true
					}
					h.Op("ten years pass: every alias domain registered so far expires")
					h.Mark("alias-domains-expired")
				}
				w.compareRegistry(m, fmt.Sprintf("step %d", s))
				continue
			}
			withAlpha := rapid.IntRange(0, 9).Draw(rt, "noAlpha") != 0
			signers := w.alpha
			if !withAlpha {
				signers = deficientSigners(rt, w.c, w.owners[0])
			}
			switch kind {
			case "put":
				b := rapid.SampledFrom(pool).Draw(rt, "blob")
				if decadePassed && b.name != "" {
					// (the zone of the aliases has expired as well: new names cannot be registered any more)
					b = pool[0]
				}
				if gammaHandedOver && b.name == "gamma" {
					// (the domain is somebody else's now: whether it may still name new containers is NNS business)
					b = pool[0]
				}
				if preGamma && b.name == "gamma" && withAlpha {
					signers = w.c.Both()
				}
				sigv := detBytes(fmt.Sprintf("sig-%d", rapid.IntRange(0, 2).Draw(rt, "sig")), 64)
				pub := w.owners[b.owner].Account().PublicKey().Bytes()
				var token []byte
				if rapid.Bool().Draw(rt, "withToken") {
					token = detBytes("token", 30)
				}
				meta := rapid.IntRange(0, 3).Draw(rt, "meta") == 0
				var o *chainkit.Outcome
				form := "put"
				switch {
				case b.name != "":
					form = "putNamed"
					zone := ""
					if rapid.IntRange(0, 3).Draw(rt, "zoneSpeltOut") == 0 {
						form, zone = "putNamed(root zone spelt out)", "container"
					}
					o = w.c.Invoke(signers, w.cnt, "putNamed", b.value, sigv, pub, token, b.name, zone)
					meta = false
				case rapid.IntRange(0, 5).Draw(rt, "unnamedThroughPutNamed") == 0:
					// no name given: putNamed is put, whatever the zone argument says
					zone := rapid.SampledFrom([]string{"", "container", "some.zone"}).Draw(rt, "zoneOfUnnamed")
					form = fmt.Sprintf("putNamed(\"\", %q)", zone)
					o = w.c.Invoke(signers, w.cnt, "putNamed", b.value, sigv, pub, token, "", zone)
					meta = false
				case meta:
					form = "put(meta)"
					o = w.c.Invoke(signers, w.cnt, "put", b.value, sigv, pub, token, true)
				case rapid.Bool().Draw(rt, "fiveArgs"):
					form = "put(meta=false)"
					o = w.c.Invoke(signers, w.cnt, "put", b.value, sigv, pub, token, false)
				default:
					o = w.c.Invoke(signers, w.cnt, "put", b.value, sigv, pub, token)
				}
				h.Op("%s %s alphabet=%v -> %s", form, b.label, withAlpha, o)
				k := hex(b.id)
				m.seen[k] = b
				dom := ""
				if b.name != "" {
					dom = b.name + ".container"
					m.doms[dom] = true
				}
				nameTaken := false
				if dom != "" {
					for _, l := range m.live {
						if l.alias == dom {
							nameTaken = true
						}
					}
				}
				want := withAlpha && !m.tomb[k] && !nameTaken
				if want != o.Halt {
					fail("C04: %s %s: expected success=%v (alphabet=%v tombstoned=%v nameTaken=%v), got %s", form, b.label, want, withAlpha, m.tomb[k], nameTaken, o)
				}
				if deletedIDs[k] || (dom != "" && deletedNames[dom]) {
					h.Mark("op-after-delete")
				}
				if o.Halt {
					old := m.live[k]
					l := &liveCnt{blob: b, sig: sigv, pub: pub, token: token, alias: dom, meta: meta}
					if old != nil {
						h.Mark("re-put-of-live")
						l.eacl = old.eacl
						l.meta = old.meta || meta
						if dom == "" {
							l.alias = old.alias
						}
					}
					m.live[k] = l
					w.expectOneEvent(o, "PutSuccess", b.id, pub)
				} else {
					w.expectNoRegistryEvents(o)
				}
			case "badput":
				var o *chainkit.Outcome
				if rapid.Bool().Draw(rt, "short") {
					b := w.mkBlob(0, 5, 99, "")
					o = w.c.Invoke(w.alpha, w.cnt, "put", b.value[:20], detBytes("s", 64), detBytes("p", 33), []byte{})
					h.Op("put of a too short blob -> %s", o)
				} else {
					b := w.mkBlob(1, 0, 98, "")
					bad := rapid.SampledFrom([]string{"Bad_Name", "-x", "x-", "a..b", "UPPER", "squatted"}).Draw(rt, "badName")
					o = w.c.Invoke(w.alpha, w.cnt, "putNamed", b.value, detBytes("s", 64), detBytes("p", 33), []byte{}, bad, "")
					h.Op("putNamed with invalid name %q -> %s", bad, o)
				}
				if o.Halt {
					fail("C04: malformed put succeeded: %s", o)
				}
			case "delete":
				b := rapid.SampledFrom(pool).Draw(rt, "blob")
				if gammaHandedOver && rapid.Bool().Draw(rt, "theOneNamedByTheForeignDomain") {
					for _, l := range m.live {
						if l.alias == "gamma.container" {
							b = l.blob
						}
					}
				}
				k := hex(b.id)
				if l := m.live[k]; preGamma && l != nil && l.alias == "gamma.container" && withAlpha {
					signers = w.c.Both()
				}
				o := w.c.Invoke(signers, w.cnt, "delete", b.id, detBytes("dsig", 64), []byte{})
				h.Op("delete %s alphabet=%v -> %s", b.label, withAlpha, o)
				m.seen[k] = b
				l, live := m.live[k]
				if !live {
					// deleting something that is not there: no effect whatever the outcome
					h.Mark("delete-of-missing")
					w.expectNoRegistryEvents(o)
					break
				}
				if gammaHandedOver && l.alias == "gamma.container" && withAlpha && !m.expired[l.alias] {
					// set-valued on acceptance: NNS may refuse to drop the record (then the container stays fully live,
					// checked below by the full comparison), or everything goes
					h.Mark("delete-with-foreign-alias-domain")
					if !o.Halt {
						w.expectNoRegistryEvents(o)
						h.Mark("delete-refused-by-nns")
						break
					}
				} else if withAlpha != o.Halt {
					fail("C04: delete of live %s alphabet=%v: got %s", b.label, withAlpha, o)
				}
				if o.Halt {
					if l.alias != "" && m.expired[l.alias] {
						h.Mark("delete-with-expired-alias-domain")
					}
					delete(m.live, k)
					m.tomb[k] = true
					deletedIDs[k] = true
					if l.alias != "" {
						deletedNames[l.alias] = true
					}
					w.expectOneEvent(o, "DeleteSuccess", b.id, nil)
					h.Mark("delete-ok")
				} else {
					w.expectNoRegistryEvents(o)
				}
			case "setEACL":
				b := rapid.SampledFrom(pool).Draw(rt, "blob")
				k := hex(b.id)
				m.seen[k] = b
				off := rapid.SampledFrom([]int{0, 1, 5, 200}).Draw(rt, "eaclOffset")
				table := mkEACL(b.id, off, rapid.IntRange(0, 3).Draw(rt, "eaclSalt"))
				sigv, pub, token := detBytes("esig", 64), detBytes("epub", 33), detBytes("etok", rapid.SampledFrom([]int{0, 12}).Draw(rt, "tokLen"))
				o := w.c.Invoke(signers, w.cnt, "setEACL", table, sigv, pub, token)
				h.Op("setEACL %s off=%d alphabet=%v -> %s", b.label, off, withAlpha, o)
				_, live := m.live[k]
				if (live && withAlpha) != o.Halt {
					fail("C04: setEACL on %s live=%v alphabet=%v: got %s", b.label, live, withAlpha, o)
				}
				if deletedIDs[k] {
					h.Mark("op-after-delete")
				}
				if o.Halt {
					m.live[k].eacl = []string{"x" + hex(table), "x" + hex(sigv), "x" + hex(pub), "x" + hex(token)}
					w.expectOneEvent(o, "SetEACLSuccess", b.id, pub)
				} else {
					w.expectNoRegistryEvents(o)
				}
			}
			w.compareRegistry(m, fmt.Sprintf("step %d", s))
		}
		if h.Has("delete-ok") && h.Has("op-after-delete") {
			h.NonTrivial()
		}
	})
}

var registryEvents = map[string]bool{"PutSuccess": true, "DeleteSuccess": true, "SetEACLSuccess": true}

// expectOneEvent requires exactly one registry notification in the
// transaction: the named one, carrying cid (and pub when given).
func (w *cntWorld) expectOneEvent(o *chainkit.Outcome, name string, cid, pub []byte) {
	cnt := 0
	for _, e := range o.Events {
		if e.ScriptHash != w.cnt || !registryEvents[e.Name] {
			continue
		}
		cnt++
		if e.Name != name {
			fail("C04: transaction emitted %s, expected %s", e.Name, name)
		}
		arr := chainkit.ItemArr(e.Item)
		if string(chainkit.ItemBytes(arr[0])) != string(cid) {
			fail("C04: %s names container %x, expected %x", name, chainkit.ItemBytes(arr[0]), cid)
		}
		if pub != nil && string(chainkit.ItemBytes(arr[1])) != string(pub) {
			fail("C04: %s carries key %x, expected %x", name, chainkit.ItemBytes(arr[1]), pub)
		}
	}
	if cnt != 1 {
		fail("C04: transaction emitted %d registry notifications, expected exactly one %s", cnt, name)
	}
}

func (w *cntWorld) expectNoRegistryEvents(o *chainkit.Outcome) {
	for _, e := range o.Events {
		if e.ScriptHash == w.cnt && registryEvents[e.Name] {
			fail("C04: %s emitted by an invocation that registered, deleted or changed nothing", e.Name)
		}
	}
}
