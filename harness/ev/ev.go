// Package ev collects what a check actually covered (cases, classes, distinct
// non-trivial histories, samples), records failures as replayable histories and
// gives access to the list of known findings. Every test process writes one
// "part" file per collector; the driver merges parts into evidence/<id>.json.
package ev

import (
	"bufio"
	"crypto/sha256"
	"encoding/hex"
	"encoding/json"
	"fmt"
	"os"
	"path/filepath"
	"runtime"
	"sort"
	"strings"
	"sync"
	"time"
)

// History is the readable operation log of one generated case.
type History struct {
	Ops        []string
	classes    map[string]bool
	nontrivial bool
}

// NewHistory starts an empty log.
func NewHistory() *History { return &History{classes: map[string]bool{}} }

// Op appends an operation (or an observation worth keeping in the replay).
func (h *History) Op(format string, args ...any) {
	h.Ops = append(h.Ops, fmt.Sprintf(format, args...))
}

// Mark tags the case with a class (counted once per case).
func (h *History) Mark(class string) { h.classes[class] = true }

// Has reports whether the class was marked.
func (h *History) Has(class string) bool { return h.classes[class] }

// NonTrivial marks the case as non-trivial by the property's stated rule.
func (h *History) NonTrivial() { h.nontrivial = true }

// Digest identifies the case by its operation list.
func (h *History) Digest() string {
	s := sha256.Sum256([]byte(strings.Join(h.Ops, "\n")))
	return hex.EncodeToString(s[:8])
}

// Violation is a failing case.
type Violation struct {
	Test    string   `json:"test"`
	Message string   `json:"message"`
	History []string `json:"history"`
	Digest  string   `json:"digest"`
}

// Part is what one collector of one process writes.
type Part struct {
	Property    string         `json:"property_id"`
	Group       string         `json:"group"`
	Level       string         `json:"level"`
	Rule        string         `json:"rule"`
	Evaluations int            `json:"evaluations"`
	BulkNT      int            `json:"bulk_nontrivial"`
	Digests     []string       `json:"nontrivial_digests"`
	Classes     map[string]int `json:"classes"`
	Samples     []any          `json:"samples"`
	Violations  []Violation    `json:"violations"`
	Known       []string       `json:"known_findings_reported"`
	Excluded    map[string]int `json:"excluded_by_known_finding"`
	Assumptions []string       `json:"assumptions"`
	Exhaustive  *bool          `json:"exhaustive,omitempty"`
	Extra       map[string]any `json:"extra,omitempty"`
	WallS       float64        `json:"wall_s"`
	Complete    bool           `json:"complete"`
}

// Collector accumulates one Part.
type Collector struct {
	mu      sync.Mutex
	p       Part
	digests map[string]struct{}
	start   time.Time
	maxSamp int
	last    *Violation
}

// New creates a collector for property id; group distinguishes several test
// functions of the same property.
func New(id, group, rule string, assumptions ...string) *Collector {
	return &Collector{
		p: Part{Property: id, Group: group, Level: "exploration", Rule: rule, Classes: map[string]int{},
			Excluded: map[string]int{}, Assumptions: assumptions, Extra: map[string]any{}},
		digests: map[string]struct{}{}, start: time.Now(), maxSamp: 4,
	}
}

// SetLevel overrides the evidence level.
func (c *Collector) SetLevel(l string) { c.p.Level = l }

// SetExhaustive declares that a finite space was enumerated completely.
func (c *Collector) SetExhaustive(b bool) { c.p.Exhaustive = &b }

// Extra stores an additional coverage key.
func (c *Collector) Extra(k string, v any) {
	c.mu.Lock()
	defer c.mu.Unlock()
	c.p.Extra[k] = v
}

// Count adds n to a class counter.
func (c *Collector) Count(class string, n int) {
	c.mu.Lock()
	defer c.mu.Unlock()
	c.p.Classes[class] += n
}

// Exclude counts a case (or outcome) forgiven because of a listed known finding.
func (c *Collector) Exclude(kf string) {
	c.mu.Lock()
	defer c.mu.Unlock()
	c.p.Excluded[kf]++
}

// Case records a finished (passing or failing) case.
func (c *Collector) Case(h *History) {
	c.mu.Lock()
	defer c.mu.Unlock()
	c.p.Evaluations++
	for k := range h.classes {
		c.p.Classes[k]++
	}
	if h.nontrivial {
		d := h.Digest()
		if _, ok := c.digests[d]; !ok {
			c.digests[d] = struct{}{}
			// keep a few non-trivial samples: the first ones and then sparser
			n := len(c.digests)
			if len(c.p.Samples) < c.maxSamp && (n <= 2 || n%97 == 0) {
				ops := h.Ops
				if len(ops) > 60 {
					ops = append(append([]string{}, ops[:60]...), fmt.Sprintf("... (%d more)", len(h.Ops)-60))
				}
				c.p.Samples = append(c.p.Samples, map[string]any{"history": ops, "digest": d})
			}
		}
	}
}

// Bulk accounts for enumerated inputs that are not recorded one by one: evals
// evaluations of which nontrivial are distinct (by construction of the
// enumeration) and non-trivial by the rule.
func (c *Collector) Bulk(evals, nontrivial int) {
	c.mu.Lock()
	defer c.mu.Unlock()
	c.p.Evaluations += evals
	c.p.BulkNT += nontrivial
}

// Sample adds an explicit sample (for enumerations).
func (c *Collector) Sample(v any) {
	c.mu.Lock()
	defer c.mu.Unlock()
	if len(c.p.Samples) < c.maxSamp+4 {
		c.p.Samples = append(c.p.Samples, v)
	}
}

// Fail records a violation (the last one recorded for a test wins: rapid
// re-runs the shrunk case last).
func (c *Collector) Fail(test, msg string, h *History) {
	c.mu.Lock()
	defer c.mu.Unlock()
	v := Violation{Test: test, Message: msg, History: append([]string{}, h.Ops...), Digest: h.Digest()}
	for i := range c.p.Violations {
		if c.p.Violations[i].Test == test {
			c.p.Violations[i] = v
			return
		}
	}
	c.p.Violations = append(c.p.Violations, v)
}

// Violations returns the number of recorded violations.
func (c *Collector) Violations() int {
	c.mu.Lock()
	defer c.mu.Unlock()
	return len(c.p.Violations)
}

// Guard must be deferred at the top of a rapid property (or any case body): it
// records the case, and turns a failure (panic) into a recorded violation
// before handing the panic on to rapid.
func (c *Collector) Guard(test string, h *History) {
	r := recover()
	if r == nil {
		c.Case(h)
		return
	}
	typ := fmt.Sprintf("%T", r)
	if typ == "rapid.invalidData" {
		panic(r) // rejected draw, not a case
	}
	c.Case(h)
	if _, isRT := r.(runtime.Error); isRT || typ == "chainkit.HarnessError" {
		// a Go runtime error can only come from the harness itself (contracts run
		// inside the VM): that is a broken check, never a violation of the property.
		c.Count("harness-runtime-error", 1)
		panic(r)
	}
	c.Fail(test, fmt.Sprint(r), h)
	panic(r)
}

// ReportKnown prints the KNOWN-FINDING line once per process and remembers it.
func (c *Collector) ReportKnown(id, what string) {
	c.mu.Lock()
	defer c.mu.Unlock()
	line := fmt.Sprintf("KNOWN-FINDING: property=%s %s %s", c.p.Property, id, what)
	for _, l := range c.p.Known {
		if l == line {
			return
		}
	}
	c.p.Known = append(c.p.Known, line)
	fmt.Println(line)
}

// Flush writes the part file. complete=false marks a run that stopped early
// (deadline), which the driver reports as a shortfall.
func (c *Collector) Flush(complete bool) {
	c.mu.Lock()
	defer c.mu.Unlock()
	c.p.Complete = complete
	c.p.WallS = time.Since(c.start).Seconds()
	c.p.Digests = c.p.Digests[:0]
	for d := range c.digests {
		c.p.Digests = append(c.p.Digests, d)
	}
	sort.Strings(c.p.Digests)
	dir := os.Getenv("VERIF_PARTDIR")
	if dir == "" {
		return
	}
	shard := os.Getenv("VERIF_SHARD")
	if shard == "" {
		shard = "0"
	}
	b, err := json.MarshalIndent(c.p, "", " ")
	if err != nil {
		panic(err)
	}
	name := filepath.Join(dir, fmt.Sprintf("%s.%s.%s.json", c.p.Property, c.p.Group, shard))
	if err := os.WriteFile(name, b, 0o644); err != nil {
		panic(err)
	}
}

// ---------------------------------------------------------------------------
// Known findings

// Finding is one line of KNOWN_FINDINGS.txt.
type Finding struct {
	Kind     string // "known" or "fixed"
	Property string
	ID       string
	Text     string
}

var (
	kfOnce sync.Once
	kfList []Finding
)

func loadKF() {
	path := os.Getenv("VERIF_KF")
	if path == "" {
		path = "/verif/KNOWN_FINDINGS.txt"
	}
	f, err := os.Open(path)
	if err != nil {
		return
	}
	defer f.Close()
	sc := bufio.NewScanner(f)
	sc.Buffer(make([]byte, 1<<20), 1<<20)
	for sc.Scan() {
		line := strings.TrimSpace(sc.Text())
		if line == "" || strings.HasPrefix(line, "#") {
			continue
		}
		kind, rest, ok := strings.Cut(line, ":")
		if !ok {
			continue
		}
		fd := Finding{Kind: strings.TrimSpace(kind), Text: strings.TrimSpace(rest)}
		for _, tok := range strings.Fields(rest) {
			if v, ok := strings.CutPrefix(tok, "property="); ok && fd.Property == "" {
				fd.Property = v
			}
			if v, ok := strings.CutPrefix(tok, "id="); ok && fd.ID == "" {
				fd.ID = v
			}
		}
		kfList = append(kfList, fd)
	}
}

// KnownListed reports whether a known (unrepaired) finding with this id is
// listed for the property. The file is only ever read.
func KnownListed(property, id string) (Finding, bool) {
	kfOnce.Do(loadKF)
	for _, f := range kfList {
		if f.Kind == "known" && f.Property == property && f.ID == id {
			return f, true
		}
	}
	return Finding{}, false
}

// Tier returns "quick" or "thorough".
func Tier() string {
	if os.Getenv("VERIF_TIER") == "thorough" {
		return "thorough"
	}
	return "quick"
}

// Thorough is true in the thorough tier.
func Thorough() bool { return Tier() == "thorough" }
