// Package regen re-translates a contract of the repository exactly the way its
// Makefile does (neo-go 0.107.0 `contract compile` + `generate-rpcwrapper`),
// using the compiler as a library because the CLI binary is not installed.
// It serves C15 (differential re-translation) and the `fix:` workflow (a
// repaired contract source needs a regenerated contract.nef).
package regen

import (
	"bytes"
	"encoding/json"
	"fmt"
	"os"
	"path/filepath"

	"github.com/nspcc-dev/neo-go/cli/smartcontract"
	"github.com/nspcc-dev/neo-go/pkg/compiler"
	"github.com/nspcc-dev/neo-go/pkg/config"
	"github.com/nspcc-dev/neo-go/pkg/smartcontract/binding"
	"github.com/nspcc-dev/neo-go/pkg/smartcontract/manifest"
	"github.com/nspcc-dev/neo-go/pkg/smartcontract/rpcbinding"
	"gopkg.in/yaml.v3"
)

// Result holds regenerated artefacts of one contract.
type Result struct {
	NEF      []byte
	Manifest []byte
	Bindings []byte // bindings_config.yml
	RPC      []byte // rpcbinding.go text
}

// Contract regenerates everything for srcDir (a contracts/<name> directory).
// Nothing is written next to the sources: outputs go to a scratch directory.
func Contract(srcDir string) (*Result, error) {
	config.Version = "0.107.0"
	tmp, err := os.MkdirTemp("", "verif-regen-*")
	if err != nil {
		return nil, err
	}
	defer os.RemoveAll(tmp)
	conf, err := smartcontract.ParseContractConfig(filepath.Join(srcDir, "config.yml"))
	if err != nil {
		return nil, err
	}
	nefPath := filepath.Join(tmp, "contract.nef")
	o := &compiler.Options{
		Outfile:      nefPath,
		ManifestFile: filepath.Join(tmp, "manifest.json"),
		BindingsFile: filepath.Join(tmp, "bindings_config.yml"),
	}
	o.Name = conf.Name
	o.SourceURL = conf.SourceURL
	o.ContractEvents = conf.Events
	o.DeclaredNamedTypes = conf.NamedTypes
	o.ContractSupportedStandards = conf.SupportedStandards
	o.Permissions = make([]manifest.Permission, len(conf.Permissions))
	for i := range conf.Permissions {
		o.Permissions[i] = manifest.Permission(conf.Permissions[i])
	}
	o.SafeMethods = conf.SafeMethods
	o.Overloads = conf.Overloads
	if _, err := compiler.CompileAndSave(srcDir, o); err != nil {
		return nil, fmt.Errorf("compile %s: %w", srcDir, err)
	}
	r := &Result{}
	if r.NEF, err = os.ReadFile(nefPath); err != nil {
		return nil, err
	}
	if r.Manifest, err = os.ReadFile(o.ManifestFile); err != nil {
		return nil, err
	}
	if r.Bindings, err = os.ReadFile(o.BindingsFile); err != nil {
		return nil, err
	}
	if r.RPC, err = RPCBinding(r.Manifest, r.Bindings); err != nil {
		return nil, err
	}
	return r, nil
}

// RPCBinding generates rpcbinding.go text from a manifest and a bindings config.
func RPCBinding(manifestJSON, bindingsYAML []byte) ([]byte, error) {
	m := new(manifest.Manifest)
	if err := json.Unmarshal(manifestJSON, m); err != nil {
		return nil, err
	}
	cfg := binding.NewConfig()
	dec := yaml.NewDecoder(bytes.NewReader(bindingsYAML))
	dec.KnownFields(true)
	if err := dec.Decode(&cfg); err != nil {
		return nil, err
	}
	cfg.Manifest = m
	var out bytes.Buffer
	cfg.Output = &out
	if err := rpcbinding.Generate(cfg); err != nil {
		return nil, err
	}
	return out.Bytes(), nil
}
