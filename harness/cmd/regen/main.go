// Command regen rewrites contracts/<name>/contract.nef, manifest.json and
// rpc/<name>/rpcbinding.go of a repository tree from its sources (used after a
// `fix:` commit to a contract, so that the shipped artefacts keep matching).
//
//	regen [-check] <repo> <name>...
package main

import (
	"bytes"
	"fmt"
	"os"
	"path/filepath"

	"verif/harness/regen"
)

func main() {
	args := os.Args[1:]
	check := false
	if len(args) > 0 && args[0] == "-check" {
		check = true
		args = args[1:]
	}
	if len(args) < 2 {
		fmt.Fprintln(os.Stderr, "usage: regen [-check] <repo> <name>...")
		os.Exit(2)
	}
	os.Unsetenv("GOFLAGS")
	repo := args[0]
	bad := 0
	for _, name := range args[1:] {
		r, err := regen.Contract(filepath.Join(repo, "contracts", name))
		if err != nil {
			fmt.Fprintln(os.Stderr, err)
			os.Exit(1)
		}
		files := map[string][]byte{
			filepath.Join(repo, "contracts", name, "contract.nef"):  r.NEF,
			filepath.Join(repo, "contracts", name, "manifest.json"): r.Manifest,
			filepath.Join(repo, "rpc", name, "rpcbinding.go"):       r.RPC,
		}
		for p, b := range files {
			old, _ := os.ReadFile(p)
			if bytes.Equal(old, b) {
				continue
			}
			if check {
				fmt.Println("DIFFERS", p)
				bad++
				continue
			}
			if err := os.WriteFile(p, b, 0o644); err != nil {
				fmt.Fprintln(os.Stderr, err)
				os.Exit(1)
			}
			fmt.Println("rewritten", p)
		}
	}
	if bad > 0 {
		os.Exit(1)
	}
}
